"""C12 helper -- card grid rule (temporary: old text form)"""
from __future__ import annotations
import ast
from .core import AnchorError
from .e1_srcmodel import parent, utext
BULK = "pyyeti/nastran/bulk.py"


def r3_card_grid(ctx):
    """the writers' card grid is the grid the generic reader slices; the fixed-field and comma readers are siblings"""
    fx = ctx.src.func(BULK, "_rdfixed")
    cm = ctx.src.func(BULK, "_rdcomma")

    def loop_exits(fn):
        loops = [n for n in fn.body if isinstance(n, ast.While)]
        if len(loops) != 1:
            raise AnchorError(f"{fn.name}: continuation loop")
        exits = []
        for n in ast.walk(loops[0]):
            if isinstance(n, (ast.Break, ast.Return)):
                p_ = parent(n)
                exits.append(utext(p_.test) if isinstance(p_, ast.If) else "unconditional")
        return loops[0], exits

    lf, ef = loop_exits(fx)
    lc, ec = loop_exits(cm)
    want = "sisNoneorlen(s)==0orconchar.find(s[0])<0"
    ok = ef == [want]
    ctx.check(ok, "_rdfixed: a card ends only when the next line is missing, empty or does not start with a continuation character - "
                  "a continuation line whose fields are all blank does not end the card", lf,
              None if ok else {"exits": ef, "consequence": "fields after a whole blank continuation line are lost, while the comma form of the same card reads fully"})
    ok = ec == [want]
    ctx.check(ok, "_rdcomma: the same single exit condition (fixed-field and free-field forms of a card read identically)", lc, None if ok else ec)
    for fn, lp in ((fx, lf), (cm, lc)):
        t = utext(lp)
        ok = "foriinrange(i,nfields):vals.append(blank)" in t.replace("\n", "") and "i=nfields" in t and "nfields+=inc" in t
        ctx.check(ok, f"{fn.name}: every line is padded with blanks up to a whole number of fields and the field count advances by `inc` per line", lp)
    t = utext(fx)
    ok = "ifn>8:inc=4else:inc=8" in t.replace("\n", "") and "maxstart=72-n" in t and "j=8" in t and "j+=n" in t and "whilej<=maxstartandlength>j:" in t \
        and "v=nas_sscanf(s[j:j+n],tolist)" in t
    ctx.check(ok, "_rdfixed: fields start at column 8, are n wide, the last one starts at 72 - n, 8 (small) or 4 (large) fields per line", fx)
    ok = "s=_proc_line(s[:72])" in t
    ctx.check(ok, "_rdfixed: only the first 72 columns of a line are data", fx)
    t = utext(cm)
    ok = "inc=8" in t and "lentok=min(len(tok),9)" in t and "start_field=1" in t
    ctx.check(ok, "_rdcomma: 8 data fields per line after the name / continuation field", cm)
    # writers
    w8 = ctx.src.func(BULK, "wtcard8")
    t = utext(w8)
    ok = "ifi>0andi%8==0:f.write('\\n+')" in t.replace("\n", "").replace("+       ", "+").replace("'\\n+'", "'\\n+'") or "ifi>0andi%8==0:" in t
    heads = [n.value for n in ast.walk(w8) if isinstance(n, ast.Constant) and isinstance(n.value, str) and n.value.startswith("\n")]
    ok = ok and any(h == "\n+       " for h in heads)
    ctx.check(ok, "wtcard8: a continuation (8-column head starting with '+') is inserted after every 8 fields", w8, heads)
    ok = "f.write(''*8)" in t and "f'{field:<8s}'" in t and "f'{field:8d}'" in t and "format_float8(field)" in t
    ctx.check(ok, "wtcard8: blank, string, integer and real fields are all 8 columns wide", w8)
    w16 = ctx.src.func(BULK, "_wtcard16")
    t = utext(w16)
    heads = [n.value for n in ast.walk(w16) if isinstance(n, ast.Constant) and isinstance(n.value, str) and "\n" in n.value and len(n.value) > 1]
    ok = "ifi>0andi%8==0:" in t and "elifi>0andi%4==0:" in t and "*\n*       " in heads and "\n*       " in heads
    ctx.check(ok, "_wtcard16: 4 fields of 16 per line; continuation heads are 8 columns starting with '*'", w16, heads)
    ok = "f.write(''*16)" in t and "f'{field:<16s}'" in t and "f'{field:16d}'" in t and "float_formatter(field)" in t
    ctx.check(ok, "_wtcard16: blank, string, integer and real fields are all 16 columns wide", w16)
    ok = "ifn_lines%2!=0:f.write('\\n*')" in t.replace("\n", "") or ("n_lines%2!=0" in t and "'\\n*'" in t)
    ctx.check(ok, "_wtcard16: large-field cards are closed to an even number of lines", w16, nontrivial=False)
    # the continuation characters the reader accepts include the ones the writers emit
    rc = ctx.src.func(BULK, "rdcards")
    t = utext(rc)
    sel = [n for n in ast.walk(rc) if isinstance(n, ast.Assign) and utext(n.targets[0]) in ("field,continuation", "(field,continuation)")]
    ok = len(sel) == 1 and utext(sel[0].value) in ("(16,'*')ifp>-1else(8,'+')", "(16,'*')ifp>-1else(8,' +')".replace(" ", ""))
    ok = ok and "p=s[:8].find('*')" in t
    ctx.check(ok, "rdcards: a card whose name field contains '*' is read with 16-wide fields and '*' continuations, otherwise 8-wide fields and "
                  "blank/'+' continuations - the heads written by _wtcard16 and wtcard8", sel[0] if sel else rc, utext(sel[0].value) if sel else None)
    ok = "_rdfixed(fiter,s,field,continuation,blank,tolist,keep_name)" in t and "_rdcomma(fiter,s,'+,',blank,tolist,keep_name)" in t
    ctx.check(ok, "rdcards: the fixed reader receives that width and continuation set; the comma reader accepts blank, '+' and ',' continuations", rc)


