"""C12-R3 -- card grid, decided on values.

The writers are evaluated on *symbolic cards* (a name and n fields of given types, n around the line breaks): whatever the code looks like
(write-as-you-go loop, nested ifs, buffer-and-join) the result is an abstract text whose lines are parsed on the reference grid of the
property (8-column head, W-wide fields, 72 columns).  The generic readers are then evaluated on that very text (`_rdfixed`) and on the
comma form of the same card (`_rdcomma`) and must give back the fields, one for one.
"""
from __future__ import annotations

import ast
from fractions import Fraction

from .core import AnchorError, Unsupported
from .e1_srcmodel import dotted
from .c12_str import Unk, Const, Param, Opaque, Lit, Fmt, Cat, Strip, Slice, StrOf, CallS, Tup, Len, cat, as_int, is_str, is_num
from .c12_exec import Engine, Interval, State, walk_value
from .c12_text import (FIELD, is_field, field_of, atoms, width, all_blank, rstrip, slice_text, first_char, split_lines, split_commas,
                       parse_fixed, FLOATW, BLANKS)

BULK = "pyyeti/nastran/bulk.py"
TYPES = {"str": "str", "np.str_": "str", "int": "int", "np.int32": "int", "np.int64": "int", "np.uint32": "int", "np.uint64": "int",
         "np.integer": "int", "float": "float", "np.float32": "float", "np.float64": "float", "np.floating": "float"}
BLANK = Opaque("blank-value", ())


class Crash(Exception):
    """the function under evaluation certainly raises for the symbolic card (every test on the path was decided)"""


def _type_classes(v):
    out = set()
    for n in walk_value(v):
        if isinstance(n, Opaque) and n.name.startswith("name:"):
            c = TYPES.get(n.name[5:])
            if c is None:
                return None
            out.add(c)
    return out


def _field_cond(test, st, eng):
    """type regime of a symbolic field: isinstance(field, types), field == '' """
    if isinstance(test, ast.Call) and dotted(test.func) == "isinstance" and len(test.args) == 2:
        x = eng.ev(test.args[0], st)
        if is_field(x):
            cl = _type_classes(eng.ev(test.args[1], st))
            if cl is None:
                return None
            t = x.args[1].s
            return ("str" if t == "blank" else t) in cl
    if isinstance(test, ast.Compare) and len(test.ops) == 1 and isinstance(test.ops[0], (ast.Eq, ast.NotEq)):
        a, b = eng.ev(test.left, st), eng.ev(test.comparators[0], st)
        if is_field(b):
            a, b = b, a
        if is_field(a) and b == Lit(""):
            return (a.args[1].s == "blank") == isinstance(test.ops[0], ast.Eq)
        if is_field(a) and isinstance(b, Lit):
            return isinstance(test.ops[0], ast.NotEq)
    # truth of stripped text
    v = None
    if isinstance(test, (ast.Call, ast.Name, ast.Attribute, ast.Subscript)):
        v = eng.ev(test, st)
    if isinstance(v, Strip) and v.chars is None:
        b = all_blank(v.s)
        if b is not None:
            return not b
    if v is not None and is_str(v) and not isinstance(v, Lit):
        w = width(v)
        if w:
            return True
    return None


def _text_post(v, st, eng):
    """strip / slice / len of card text computed on its atoms"""
    if isinstance(v, Strip) and v.chars is None and v.side == "r" and atoms(v.s) is not None:
        return rstrip(v.s)
    if isinstance(v, Strip) and v.chars is None and v.side == "b" and all_blank(v.s) is True:
        return Lit("")
    if isinstance(v, Slice) and atoms(v.s) is not None:
        lo = None if v.lo is None else as_int(v.lo)
        hi = None if v.hi is None else as_int(v.hi)
        if (v.lo is None or lo is not None) and (v.hi is None or hi is not None):
            return slice_text(v.s, lo, hi)
    if isinstance(v, Len):
        w = width(v.s)
        if w is not None:
            return Fraction(w)
    return v


def symbolic_card(name, shape):
    return Tup((Lit(name),) + tuple(FIELD(i, t) for i, t in enumerate(shape)))


def run_writer(ctx, q, name, shape, formatter=None):
    """-> abstract text written for the card, or raises Unsupported"""
    fn = ctx.src.func(BULK, q)
    params = [a.arg for a in fn.args.args]
    if len(params) < 2:
        raise AnchorError(f"{q}: parameters")
    env = {params[0]: Opaque("file", ()), params[1]: symbolic_card(name, shape)}
    if formatter is not None:
        if len(params) < 3:
            raise AnchorError(f"{q}: formatter parameter")
        env[params[2]] = Opaque("name:" + formatter, ())
    eng = Engine(ctx, BULK, fn, cond=_field_cond, env=env, post=_text_post, strict_locals=True)
    allv = eng.run()
    leaves = [lf for lf in allv if lf.kind in ("fall", "return")]      # paths that raise write no card
    crash = [lf for lf in allv if lf.kind == "raise" and isinstance(lf.value, Lit) and not lf.state.facts]
    if crash and not leaves:
        raise Crash(f"{q} raises {crash[0].value.s} for this card")
    texts = []
    for lf in leaves:
        out = []
        for nm, args, kw, node in lf.state.effects:
            if nm == params[0] + ".write" and args and len(args) == 1:
                out.append(args[0])
            elif nm == params[0] + ".writelines" and args and isinstance(args[0], Tup):
                out.extend(args[0].items)
        if any(not is_str(o) for o in out):
            raise Unsupported(f"{q}: written text is not modelled ({[type(o).__name__ for o in out if not is_str(o)][:3]})")
        texts.append(cat(*out))
    if not texts or any(t != texts[0] for t in texts):
        raise Unsupported(f"{q}: {len(texts)} different texts for one card (undecided: {[f[0] for lf in leaves for f in lf.state.facts][:3]})")
    return texts[0]


def expected_slots(shape):
    return [("blank" if t == "blank" else FIELD(i, t)) for i, t in enumerate(shape)]


def trim(seq, blank):
    seq = list(seq)
    while seq and seq[-1] == blank:
        seq.pop()
    return seq


def check_grid(text, W, per, conchars, shape, closing):
    """parse the written text on the reference grid -> problem text or None"""
    lines = split_lines(text)
    got = []
    for k, ln in enumerate(lines):
        head, slots, problem = parse_fixed(ln, W, k == 0)
        if problem:
            return f"line {k + 1}: {problem}"
        if k > 0:
            if not head or head[0] not in conchars:
                return f"line {k + 1} starts with {head[:1]!r}, which the generic reader does not accept as a continuation of a {W}-wide card"
        if len(slots) > per:
            return f"line {k + 1} holds {len(slots)} fields"
        if k < len(lines) - 1 or slots:
            got.extend(slots + ["blank"] * (per - len(slots)))
    want = expected_slots(shape)
    if trim(got, "blank") != trim(want, "blank"):
        i = next((j for j, (a, b) in enumerate(zip(got + ["-"] * len(want), want + ["-"] * len(got))) if a != b), None)
        return f"field {i + 1 if i is not None else '?'} of {len(shape)} is not in line {1 + (i or 0) // per}, position {1 + (i or 0) % per} of the grid"
    nl = -(-max(len(shape), 1) // per)
    if len(lines) not in (nl, nl + 1):
        return f"{len(lines)} physical lines for {len(shape)} fields"
    return None


# ---------------------------------------------------------------------- readers
def run_reader(ctx, q, lines, n, conchar, fixed=True):
    """evaluate _rdfixed / _rdcomma on abstract lines -> list of values read"""
    fn = ctx.src.func(BULK, q)
    params = [a.arg for a in fn.args.args]
    want = ["fiter", "s", "n", "conchar", "blank", "tolist", "keep_name"] if fixed else ["fiter", "s", "conchar", "blank", "tolist", "keep_name"]
    if len(params) != len(want):
        raise AnchorError(f"{q}: signature {params}")
    vals = [Opaque("iterator", ()), lines[0]] + ([Fraction(n)] if fixed else []) + [Lit(conchar), BLANK, Const(True), Const(False)]
    env = dict(zip(params, vals))
    env["<next>"] = Fraction(1)
    it = params[0]

    def call(name, args, kw, node, st, eng):
        if name == it + ".send" or (name == "next" and args and args[0] == env[it]):
            k = as_int(st.env["<next>"])
            st.env["<next>"] = Fraction(k + 1)
            return lines[k] if k < len(lines) else Const(None)
        if name == "_proc_line" and len(args) == 1:
            # comment stripping: the written card holds no '$' (fields are numbers, names, blanks) -> what is left is the right strip
            return _text_post(Strip(args[0], None, "r"), st, eng) if is_str(args[0]) else Unk("_proc_line")
        if name == "nas_sscanf" and args:
            x = args[0]
            if isinstance(x, Opaque) and x.name in ("part", "parts"):
                return Opaque("misread", (x,))
            if not is_str(x):
                return Unk("nas_sscanf of " + type(x).__name__)
            b = all_blank(x)
            if b is True:
                return Const(None)
            at = atoms(x)
            fs = [field_of(a) for a, _ in (at or []) if field_of(a) is not None]
            if at is not None and len(fs) == 1 and all(isinstance(a, Lit) and a.s.strip(BLANKS) == "" for a, _ in at if field_of(a) is None):
                return fs[0]
            if at is not None and not fs and b is False:
                return Lit("".join(a.s for a, _ in at).strip())
            return Opaque("misread", (x,))
        if isinstance(node.func, ast.Attribute) and node.func.attr == "split" and len(args) == 1 and args[0] == Lit(","):
            recv = eng.ev(node.func.value, st)
            if is_str(recv) and atoms(recv) is not None:
                return split_commas(recv)
        if isinstance(node.func, ast.Attribute) and node.func.attr in ("find", "index") and len(args) == 1 and isinstance(args[0], Lit):
            recv = eng.ev(node.func.value, st)
            if is_str(recv) and not isinstance(recv, Lit) and atoms(recv) is not None and len(args[0].s) == 1:
                # position of a character in card text: only literal pieces can hold it (fields are numbers / names)
                pos = 0
                for a, w in atoms(recv):
                    if isinstance(a, Lit) and args[0].s in a.s:
                        return Fraction(pos + a.s.index(args[0].s))
                    pos += w
                return Fraction(-1) if node.func.attr == "find" else Unk("index: not found")
        return NotImplemented

    def cond(test, st, eng):
        r = _field_cond(test, st, eng)
        if r is not None:
            return r
        if isinstance(test, ast.Compare) and len(test.ops) == 1 and isinstance(test.ops[0], (ast.In, ast.NotIn)):
            a, b = eng.ev(test.left, st), eng.ev(test.comparators[0], st)
            if isinstance(a, Lit) and isinstance(b, Lit):
                return (a.s in b.s) == isinstance(test.ops[0], ast.In)
        return None

    def post(v, st, eng):
        v = _text_post(v, st, eng)
        if isinstance(v, Slice) and v.lo is None and as_int(v.hi) == 1 and is_str(v.s):
            c = first_char(v.s)
            if c is not None:
                return Lit(c)
        return v

    eng = Engine(ctx, BULK, fn, cond=cond, call=call, env=env, post=post, strict_locals=True)
    leaves = eng.run()
    rets = [lf for lf in leaves if lf.kind == "return"]
    crash = [lf for lf in leaves if lf.kind == "raise" and isinstance(lf.value, Lit) and not lf.state.facts]
    if crash and not rets:
        raise Crash(f"{q} raises {crash[0].value.s} for this card")
    if not rets or any(lf.value != rets[0].value for lf in rets) or any(lf.kind == "fall" for lf in leaves):
        raise Unsupported(f"{q}: {len(leaves)} paths for one card (undecided: {[f[0] for lf in leaves for f in lf.state.facts][:3]})")
    v = rets[0].value
    if not isinstance(v, Tup):
        raise Unsupported(f"{q}: returns {type(v).__name__}")
    for x in v.items:
        wrong = any(isinstance(n, Opaque) and n.name == "misread" for n in walk_value(x))
        if not wrong and not (is_field(x) or x == BLANK or isinstance(x, (Lit, Const)) or is_num(x)):
            raise Unsupported(f"{q}: a value read is not determined ({type(x).__name__})")
    consumed = as_int(rets[0].state.env["<next>"]) - 1
    return list(v.items), consumed


def comma_lines(name, shape, lead=",", short=False, marker=""):
    """the comma-separated form of a card: 8 data fields per line; `lead` starts a continuation line (its first field is the continuation
    field), `short` leaves out the trailing blank fields of a line, `marker` puts a continuation field (10th field) on full lines"""
    out = []
    starts = list(range(0, max(len(shape), 1), 8))
    for k in starts:
        toks = []
        for i in range(k, min(k + 8, len(shape))):
            toks.append(None if shape[i] == "blank" else StrOf(FIELD(i, shape[i])))
        if short:
            while toks and toks[-1] is None:
                toks.pop()
        parts = [Lit(name if k == 0 else lead.rstrip(","))]
        for t in toks:
            parts.append(Lit(","))
            if t is not None:
                parts.append(t)
        if marker and len(toks) == 8 and k != starts[-1]:
            parts.append(Lit("," + marker))
        out.append(cat(*parts))
    return out


def blank_heads(lines):
    """the same small-field card with blank continuation fields instead of '+'"""
    out = []
    for k, ln in enumerate(lines):
        a = atoms(ln)
        if k and a and isinstance(a[0][0], Lit) and a[0][0].s[:8] == "+       ":
            ln = cat(Lit(" " * 8 + a[0][0].s[8:]), *[x for x, _ in a[1:]])
        out.append(ln)
    return out


def shapes(per):
    """card shapes around the line breaks: (description, [field types])"""
    def mixed(n):
        # left-justified strings never end a line here: how many blanks trail them is not known, so the stripped line length would not be
        kinds = ["int", "float", "str", "blank", "str"]
        out = [kinds[i % len(kinds)] for i in range(n)]
        for i in range(n):
            if (i % per == per - 1 or i == n - 1) and out[i] in ("str", "blank"):
                out[i] = "int" if i % 2 else "float"
        return out
    out = []
    for n in (1, per - 1, per, per + 1, 2 * per, 2 * per + 1, 3 * per + 2):
        out.append((f"{n} integer fields", ["int"] * n))
    for n in (per, 2 * per + 1):
        out.append((f"{n} real fields", ["float"] * n))
        out.append((f"{n} fields of mixed types", mixed(n)))
    out.append((f"{3 * per} fields, the second line blank", ["int"] * per + ["blank"] * per + ["float"] * per))
    out.append((f"{3 * per + 1} fields, two blank lines", ["int"] * (per - 1) + ["blank"] * (2 * per + 1) + ["int"]))
    out.append((f"{2 * per} fields, blank run across the line break", ["int"] * (per - 2) + ["blank"] * 4 + ["float"] * (per - 2)))
    out.append((f"{per + 3} fields, blank first line", ["blank"] * per + ["int"] * 3))
    out.append(("60 integer fields", ["int"] * 60))                               # the longest card of the property's domain
    out.append(("58 fields of mixed types", mixed(58)))
    return out


def rdcards_dispatch(ctx):
    """(field width, continuation characters) the generic reader hands to _rdfixed with / without a '*' in the name field, and the
    continuation characters of the comma reader: read from the values of the calls in rdcards"""
    fn = ctx.src.func(BULK, "rdcards")
    loops = [n for n in ast.walk(fn) if isinstance(n, ast.While) and any(isinstance(c, ast.Call) and dotted(c.func) == "_rdfixed" for c in ast.walk(n))]
    if len(loops) != 1:
        raise AnchorError("rdcards: the card loop calling _rdfixed")
    lnames = sorted({n.id for n in ast.walk(loops[0].test) if isinstance(n, ast.Name)})
    eng = Engine(ctx, BULK, fn, env={}, lenient=True)
    st = eng.start_state()
    for nm in lnames:
        st.env[nm] = Param("<line>")          # the loop runs while there is a line: its test names the line variable
    try:
        res = eng.block(loops[0].body, st)
    except Unsupported as e:
        raise Unsupported(f"rdcards card loop: {e}")
    found = {}
    comma = set()
    order = []
    for s2, out, pay in res:
        star = None
        for f in s2.facts:
            vals = f[3] if len(f) > 3 else None
            if not vals:
                continue
            op, a, b = vals
            pol = _star_test(op, a, b)
            if pol is not None:
                star = (f[1] == pol)
        for nm, args, kw, node in s2.effects:
            if nm in ("_rdfixed", "_rdcomma") and args and len(args) >= 3:
                args = _by_signature(ctx, nm, args, kw)
                has_line = [any(n == Param("<line>") for n in walk_value(a)) for a in args[:2]]
                if has_line != [False, True]:
                    order.append(nm)
            if nm == "_rdfixed" and args and len(args) >= 4 and star is not None:
                found.setdefault(star, set()).add((args[2], args[3]))
            if nm == "_rdcomma" and args and len(args) >= 3:
                comma.add(args[2])
    return found, comma, loops[0], order


def _by_signature(ctx, name, args, kw):
    names = [a.arg for a in ctx.src.func(BULK, name).args.args]
    full = list(args) + [None] * max(0, len(names) - len(args))
    for k, v in (kw or ()):
        if k in names:
            full[names.index(k)] = v
    return full


def _star_test(op, a, b):
    """is the recorded comparison 'the first 8 columns contain a *' -> polarity (True: the test is true when there is one)"""
    def in_head(v):
        for n in walk_value(v):
            if isinstance(n, Slice) and n.lo is None and as_int(n.hi) == 8:
                return True
        return False
    if isinstance(op, (ast.In, ast.NotIn)) and a == Lit("*") and in_head(b):
        return isinstance(op, ast.In)
    if isinstance(a, Opaque) and a.name in (".find", ".index") and len(a.args) == 2 and a.args[1] == Lit("*") and in_head(a.args[0]) and is_num(b):
        if (isinstance(op, ast.Gt) and b == -1) or (isinstance(op, ast.GtE) and b == 0) or (isinstance(op, ast.NotEq) and b == -1):
            return True
        if (isinstance(op, ast.LtE) and b == -1) or (isinstance(op, ast.Lt) and b == 0) or (isinstance(op, ast.Eq) and b == -1):
            return False
    return None


WRITERS = (("wtcard8", None, "GRID", 8, 8, False), ("_wtcard16", "format_float16", "GRID*", 16, 4, True),
           ("_wtcard16", "format_double16", "DMIG*", 16, 4, True))


def r3_card_grid(ctx):
    ctx.assume("C12-R3: a field value fits the column it is written into (integers of at most W digits, strings of at most W characters); "
               "names and string fields hold no '$', ',' or '*'")
    # ---- what the generic reader expects
    found, comma, loop, order = rdcards_dispatch(ctx)
    ctx.check(not order, "rdcards: the readers receive the line iterator first and the current line second", loop, order or None)
    conch = {}
    for star, W in ((True, 16), (False, 8)):
        got = found.get(star, set())
        ok = len(got) == 1 and next(iter(got))[0] == Fraction(W) and isinstance(next(iter(got))[1], Lit)
        ctx.check(ok, f"rdcards: a card {'with' if star else 'without'} '*' in its name field is read with {W}-wide fields", loop,
                  None if ok else [(str(a), str(b)) for a, b in got])
        conch[W] = next(iter(got))[1].s if ok else ""
    ok = "*" in conch[16] and "+" in conch[8] and " " in conch[8]
    ctx.check(ok, "rdcards: '*' continues a large-field card, blank or '+' a small-field card", loop, conch)
    ok = len(comma) == 1 and isinstance(next(iter(comma)), Lit) and set(" +,") <= set(next(iter(comma)).s)
    ctx.check(ok, "rdcards: the comma reader accepts blank, '+' and ',' continuations", loop, [str(c) for c in comma])
    cch = next(iter(comma)).s if ok else " +,"
    # wtcard16 / wtcard16d hand their formatter to the shared writer
    for q, fmt in (("wtcard16", "format_float16"), ("wtcard16d", "format_double16")):
        fn = ctx.src.func(BULK, q)
        eng = Engine(ctx, BULK, fn)
        lv = eng.run()
        calls = [(nm, args) for lf in lv for nm, args, kw, node in lf.state.effects if nm == "_wtcard16"]
        ps = [a.arg for a in fn.args.args]
        ok = len(lv) == 1 and len(calls) == 1 and calls[0][1] is not None and len(calls[0][1]) == 3 and list(calls[0][1][:2]) == [Param(p) for p in ps[:2]] \
            and calls[0][1][2] == Opaque("name:" + fmt, ())
        ctx.check(ok, f"{q}: writes through _wtcard16 with {fmt}", fn)
    # ---- writers on the reference grid, readers on the written text
    for q, fmt, name, W, per, closing in WRITERS:
        wfn = ctx.src.func(BULK, q)
        tag = q + (f"[{fmt}]" if fmt else "")
        for desc, shape in shapes(per):
            try:
                text = run_writer(ctx, q, name, shape, fmt)
            except Crash as e:
                ctx.fail(f"{tag}: card of {desc}: the card is written", wfn, str(e))
                continue
            except Unsupported as e:
                ctx.error(f"{tag}: card of {desc}: the writer is not modelled", wfn, str(e))
                continue
            problem = check_grid(text, W, per, conch[W], shape, closing)
            ctx.check(problem is None, f"{tag}: card of {desc}: name in 8 columns, every field in its own {W}-wide slot, {per} per line, "
                                       f"continuation lines headed by 8 columns starting with a character the reader accepts", wfn, problem)
            if problem is not None:
                continue
            rfn = ctx.src.func(BULK, "_rdfixed")
            lines = split_lines(text)
            lines = lines[:1] + [cat(ln, Lit("\n")) for ln in lines[1:]]          # continuation lines arrive raw, the first one stripped
            want = trim([BLANK if s == "blank" else s for s in expected_slots(shape)], BLANK)
            try:
                got, used = run_reader(ctx, "_rdfixed", lines, W, conch[W], True)
            except Crash as e:
                ctx.fail(f"_rdfixed reads the {tag} card of {desc} back field for field ({len(lines)} lines)", rfn, str(e))
                continue
            except Unsupported as e:
                ctx.error(f"_rdfixed on the {tag} card of {desc}: the reader is not modelled", rfn, str(e))
                continue
            ok = trim(got, BLANK) == want
            ctx.check(ok, f"_rdfixed reads the {tag} card of {desc} back field for field ({len(lines)} lines)", rfn,
                      None if ok else _diff(got, want, used, len(lines)))
            if W == 8 and len(lines) > 1 and " " in conch[8]:
                try:
                    got, used = run_reader(ctx, "_rdfixed", blank_heads(lines), W, conch[W], True)
                    ok = trim(got, BLANK) == want
                    ctx.check(ok, f"_rdfixed reads the {tag} card of {desc} alike when its continuation fields are blank", rfn,
                              None if ok else _diff(got, want, used, len(lines)))
                except Crash as e:
                    ctx.fail(f"_rdfixed reads the {tag} card of {desc} alike when its continuation fields are blank", rfn, str(e))
                except Unsupported as e:
                    ctx.error(f"_rdfixed on the {tag} card of {desc} with blank continuation fields: the reader is not modelled", rfn, str(e))
            if fmt == "format_double16":
                continue
            cfn = ctx.src.func(BULK, "_rdcomma")
            if W != 8:
                continue                # the comma form does not depend on the field width: once per shape
            for lead, short, marker, how in ((",", False, "", "',' continuations"), ("+,", False, "", "'+,' continuations"),
                                             (" ,", True, "", "' ,' continuations, trailing blank fields of a line left out"),
                                             ("+C1,", False, "+C1", "continuation fields '+C1' at both ends")):
                cl = [cat(ln, Lit("\n")) for ln in comma_lines(name.rstrip("*"), shape, lead, short, marker)]
                try:
                    gotc, usedc = run_reader(ctx, "_rdcomma", cl, None, cch, False)
                except Crash as e:
                    ctx.fail(f"_rdcomma reads the comma form ({how}) of the card of {desc} like the fixed form", cfn, str(e))
                    continue
                except Unsupported as e:
                    ctx.error(f"_rdcomma on the comma form ({how}) of the card of {desc}: the reader is not modelled", cfn, str(e))
                    continue
                ok = trim(gotc, BLANK) == want
                ctx.check(ok, f"_rdcomma reads the comma form ({how}) of the card of {desc} like the fixed form", cfn,
                          None if ok else _diff(gotc, want, usedc, len(cl)))


def _diff(got, want, used, nlines):
    def t(v):
        if is_field(v):
            return f"field{as_int(v.args[0]) + 1}"
        if v == BLANK:
            return "blank"
        return type(v).__name__ if not isinstance(v, (Lit, Opaque)) else (v.s if isinstance(v, Lit) else v.name)
    g, w = trim(got, BLANK), want
    i = next((j for j in range(max(len(g), len(w))) if j >= len(g) or j >= len(w) or g[j] != w[j]), None)
    return {"lines consumed": f"{used} of {nlines}", "fields read": len(g), "fields written": len(w),
            "first difference at field": None if i is None else i + 1,
            "read": [t(x) for x in g[max(0, (i or 0) - 2):(i or 0) + 3]], "written": [t(x) for x in w[max(0, (i or 0) - 2):(i or 0) + 3]]}
