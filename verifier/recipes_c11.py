"""Self-test recipes of C11 (same tuple format as selftest.RECIPES): (property, "break" | "neutral", [expected rules], file, old, new, description).
Break recipes break one necessary condition each; neutral recipes are behaviour-preserving re-spellings the rules must not notice."""

OP2 = "pyyeti/nastran/op2.py"
OP4 = "pyyeti/nastran/op4.py"

# ---- texts of /repo used by several recipes of the second pass
_SKIPREC = "        key = self._getkey()\n        while key > 0:\n            reclen = self._Str4.unpack(self._fileh.read(4))[0]\n            self._fileh.seek(reclen + 4, 1)\n            key = self._getkey()\n        self._skipkey(2)\n"
_SKIPREC_WALRUS = "        while (key := self._getkey()) > 0:\n            reclen = self._Str4.unpack(self._fileh.read(4))[0]\n            self._fileh.seek(@SEEK@, 1)\n        self._skipkey(2)\n"
_SKIPREC_MIDDLE = "        while True:\n            key = self._getkey()\n            if key <= 0:\n                break\n            reclen = self._Str4.unpack(self._fileh.read(4))[0]\n            self._fileh.seek(@SEEK@, 1)\n        self._skipkey(2)\n"
_SKIPMAT_TAIL = "            self._getkey()\n            dtype = self._getkey()\n        self.rdop2eot()\n\n    def skipop2table"
_SKIPMAT = "        dtype = 1\n        while dtype > 0:  # read in matrix columns\n            # key is number of elements in next record (row # followed\n            # by key-1 real numbers)\n            key = self._getkey()\n            # skip column\n            while key > 0:\n                reclen = self._Str4.unpack(self._fileh.read(4))[0]\n                self._fileh.seek(reclen, 1)\n                self._fileh.read(4)  # endrec\n                key = self._getkey()\n            self._getkey()\n            dtype = self._getkey()\n        self.rdop2eot()\n"
_SKIPMAT_DO = "        while True:  # read in matrix columns\n            key = self._getkey()\n            # skip column\n            while key > 0:\n                reclen = self._Str4.unpack(self._fileh.read(4))[0]\n                self._fileh.seek(reclen, 1)\n                self._fileh.read(4)  # endrec\n                key = self._getkey()\n@TRAIL@            dtype = self._getkey()\n            if dtype <= 0:\n                break\n        self.rdop2eot()\n"
_SKIP_DENSE = "                elems = int(line[e_slice])\n                nlines = (elems + perline - 1) // perline\n                for _ in it.repeat(None, nlines):\n                    self._fileh.readline()\n                line = self._fileh.readline()\n                c = int(line[c_slice]) - 1\n        elif bigmat:"
_NB_BIN = "                L = (IS >> 16) - 1  # L\n                r = IS - ((L + 1) << 16) - 1  # irow-1\n                nwords -= L + 1  # words left\n"
_NB_ASC = "                L = (IS >> 16) - 1  # L\n                r = IS - ((L + 1) << 16) - 1  # irow-1\n                elems -= L + 1\n"
_GETKEY = "        self._fileh.read(4)\n        key = self._Str.unpack(self._fileh.read(self._ibytes))[0]\n        self._fileh.read(4)\n        return key\n"
_SKIPKEY = "    def _skipkey(self, n):\n        \"\"\"Skips `n` key triplets ([reclen, key, endrec]).\"\"\"\n        self._fileh.read(n * (8 + self._ibytes))\n"
_SKIPKEY_PROP = "    @property\n    def _keysize(self):\n        \"\"\"Number of bytes in a [reclen, key, endrec] triplet.\"\"\"\n        return @SIZE@\n\n    def _skipkey(self, n):\n        \"\"\"Skips `n` key triplets ([reclen, key, endrec]).\"\"\"\n        self._fileh.read(n * self._keysize)\n"
_DENSE_BIN_LOOP = "        cutoff, s3, b3, s4 = self._get_cutoff_etc()\n        while c < cols:\n            r -= 1\n            nwords //= wper\n            if nwords < cutoff:\n                Y = struct.unpack(numform % nwords, fp.read(bytesreal * nwords))\n            else:\n                Y = np.fromfile(fp, numform2, nwords)\n            put(X, r, c, Y)\n            fp.read(4)\n            reclen = s4(fp.read(4))[0]\n            c, r, nwords = s3(fp.read(b3))\n            c -= 1\n        return retrn(rows, cols, X), reclen\n\n    def _rd_bigmat_binary"
_DENSE_BIN_LOCAL = "        cutoff, s3, b3, s4 = self._get_cutoff_etc()\n\n        def next_head():\n@MARK@            reclen = s4(fp.read(4))[0]\n            icol, irow, nw = s3(fp.read(b3))\n            return reclen, icol - 1, irow, nw\n\n        while c < cols:\n            r -= 1\n            nwords //= wper\n            if nwords < cutoff:\n                Y = struct.unpack(numform % nwords, fp.read(bytesreal * nwords))\n            else:\n                Y = np.fromfile(fp, numform2, nwords)\n            put(X, r, c, Y)\n            reclen, c, r, nwords = next_head()\n        return retrn(rows, cols, X), reclen\n\n    def _rd_bigmat_binary"
_SKIPBIN_BODY = "        while icol <= cols:\n            # Read record length at start of record:\n            reclen = self._Str_i4.unpack(self._fileh.read(4))[0]\n            # Read column header\n            icol = self._Str_i.unpack(self._fileh.read(bi))[0]\n            self._fileh.seek(reclen + delta, 1)\n"
_SKIPBIN_LAMBDA = "        word = lambda S, n: S.unpack(self._fileh.read(n))[0]  # noqa: E731\n        while icol <= cols:\n            reclen = word(self._Str_i4, 4)\n            icol = word(self._Str_i, @N@)\n            self._fileh.seek(reclen + delta, 1)\n"
_ASCII_CALL = "        rdfunc, funcs = self._get_funcs(\"ascii\", rows, r, mtype, sparse, c >= cols)\n        X = rdfunc(wper, r, c, abs(rows), cols, line, numlen, perline, linelen, funcs)\n"
_ASCII_DIRECT = "        nocols = c >= cols\n        _rdfunc, funcs = self._get_funcs(\"ascii\", rows, r, mtype, sparse, nocols)\n        args = (wper, r, c, abs(rows), cols, line, numlen, perline, linelen, funcs)\n        if @DENSE@ and not (nocols and rows < 0):\n            X = self._rd_dense_ascii(*args)\n        elif r <= 0 and 0 <= rows < self._rows4bigmat:\n            X = self._rd_nonbigmat_ascii(*args)\n        else:\n            X = self._rd_bigmat_ascii(*args)\n"
_BIN_SCAN = "            fp.read(4)\n            if patternlist and name not in patternlist:\n                skip = 1\n            else:\n                skip = 0\n            if listonly or skip:\n                self._skipop4_binary(cols)\n                if listonly:\n                    return name, (abs(rows), cols), form, mtype\n            else:\n                break\n"
_BIN_SCAN_CONT = "            fp.read(4)\n            if listonly:\n                self._skipop4_binary(cols)\n                return name, (abs(rows), cols), form, mtype\n            if patternlist and name not in patternlist:\n@SKIP@                continue\n            break\n"
_REC_LOOPS = "        if N:\n            data = np.empty(N, dtype=frm)\n            i = 0\n            while key > 0:\n                reclen = self._Str4.unpack(f.read(4))[0]\n                # f.read(4)  # reclen\n                n = reclen // bytes_per\n                if n < self._rowsCutoff:\n                    b = n * bytes_per\n                    data[i : i + n] = struct.unpack(frmu % n, f.read(b))\n                else:\n                    data[i : i + n] = np.fromfile(f, frm, n)\n                i += n\n                f.read(4)  # endrec\n                key = self._getkey()\n        else:\n            data = []\n            while key > 0:\n                reclen = self._Str4.unpack(f.read(4))[0]\n                # f.read(4)  # reclen\n                n = reclen // bytes_per\n                if n < self._rowsCutoff:\n                    b = n * bytes_per\n                    cur = struct.unpack(frmu % n, f.read(b))\n                else:\n                    cur = np.fromfile(f, frm, n)\n                data.extend(cur)\n                # data = np.hstack((data, cur))\n                f.read(4)  # endrec\n                key = self._getkey()\n            data = np.array(data, dtype=frm)\n        self._skipkey(2)\n        return data\n"
_REC_FUSED = "        if N:\n            data = np.empty(N, dtype=frm)\n        else:\n            parts = []\n        i = 0\n        while key > 0:\n            reclen = self._Str4.unpack(f.read(4))[0]\n            n = reclen // bytes_per\n            if n < self._rowsCutoff:\n                cur = struct.unpack(frmu % n, f.read(n * bytes_per))\n            else:\n                cur = np.fromfile(f, frm, n)\n            if N:\n                data[i : i + n] = cur\n                i += @STEP@\n            else:\n                parts.extend(cur)\n            f.read(4)  # endrec\n            key = self._getkey()\n        if not N:\n            data = np.array(parts, dtype=frm)\n        self._skipkey(2)\n        return data\n"

_OP2_FORMATS = "        if reclen == 4:\n            self._ibytes = 4\n            self._intstr = self._endian + \"i4\"\n            self._intstru = self._endian + \"%di\"\n            self._i = \"i\"\n            self._Str = self._Str4\n            self._rfrmu = self._endian + \"%df\"\n            self._rfrm = self._endian + \"f4\"\n            self._f = \"f\"\n            self._fbytes = 4\n        else:\n            self._ibytes = 8\n            self._intstr = self._endian + \"i8\"\n            self._intstru = self._endian + \"%dq\"\n            self._i = \"q\"\n            self._Str = struct.Struct(self._endian + \"q\")\n            self._rfrmu = self._endian + \"%dd\"\n            self._rfrm = self._endian + \"f8\"\n            self._f = \"d\"\n            self._fbytes = 8\n"
_OP2_TABLE = "        table = {4: (4, \"i4\", \"%di\", \"i\", \"%df\", \"f4\", \"f\"), 8: (8, \"i8\", \"@I8@\", \"q\", \"%dd\", \"f8\", \"d\")}\n        nb, istr, istru, ichar, rfrmu, rfrm, fchar = table[4 if reclen == 4 else 8]\n        self._ibytes = self._fbytes = nb\n        self._intstr = self._endian + istr\n        self._intstru = self._endian + istru\n        self._i = ichar\n        self._Str = struct.Struct(self._endian + ichar)\n        self._rfrmu = self._endian + rfrmu\n        self._rfrm = self._endian + rfrm\n        self._f = fchar\n"

_REC_REALS = "        elif form == \"double\":\n            frm = self._endian + \"f8\"\n            frmu = self._endian + \"%dd\"\n            bytes_per = 8\n        elif form == \"single\":\n            frm = self._endian + \"f4\"\n            frmu = self._endian + \"%df\"\n            bytes_per = 4\n"
_REC_REALS_HELPER = "        elif form in (\"double\", \"single\"):\n            def real_format(form):\n                if form == \"double\":\n                    return self._endian + \"f8\", self._endian + \"%dd\", 8\n                if form == \"single\":\n                    return self._endian + \"f4\", self._endian + \"%df\", @NB@\n                raise ValueError(form)\n            frm, frmu, bytes_per = real_format(form)\n"

_REC_REALS_TABLE = "        elif form in (\"double\", \"single\"):\n            code, bytes_per = {\"double\": (\"d\", 8), \"single\": (\"f\", @NB@)}[form]\n            frm = f\"{self._endian}f{bytes_per}\"\n            frmu = f\"{self._endian}%d{code}\"\n"
_MAT_BYTES = "            frm = self._rfrm\n            frmu = self._rfrmu\n            bytes_per = self._fbytes\n        else:\n            frm = self._endian + \"f8\"\n            frmu = self._endian + \"%dd\"\n            bytes_per = 8\n\n        matrix = np.zeros"
_MAT_CALCSIZE = "            frm = self._rfrm\n            frmu = self._rfrmu\n        else:\n            frm = self._endian + \"f8\"\n            frmu = self._endian + \"%dd\"\n        bytes_per = struct.calcsize(frmu % @N@)\n\n        matrix = np.zeros"

# ------------------------------------------------------------------ pass 5: where the candidates of a matrix read come from (typestate of directory entries)
_MATS_FILTER = "            dblist = [sns for sns in matrices if sns.name == name]\n"
_MATS_HEAD = "        mats = {}\n        for name in unique_names:\n" + _MATS_FILTER
_MATS_KIND_LOOP = ("            dblist = []\n            for cand in self.dblist:\n                if cand.dbtype == 1 and cand.name == name:\n"
                   "                    dblist.append(cand)\n")
_MATS_BYNAME = ("        mats = {}\n        byname = {nm: [sns for sns in matrices if sns.name == nm] for nm in unique_names}\n"
                "        for name in unique_names:\n            dblist = byname[name]\n")

# ---- texts of the pass "positioned read by value" (rdop2mats / _rdmat, directory namespace)
_RDMAT = "        self.set_position(sns.start)\n        self.rdop2nt()\n        return self.rdop2matrix(sns.trailer)\n"
_NT_FRM = "        frm = self._intstru % key\n        bytes = self._ibytes * key\n        trailer = struct.unpack(frm, self._fileh.read(bytes))\n"
_DIR_NS = ("            sns = SimpleNamespace(\n                name=name,\n                start=pos,\n                stop=cur,\n                nbytes=cur - pos - 1,\n"
           "                dbtype=dbtype,\n                size=size,\n                trailer=trailer,\n                headers=headers,\n            )\n")
_DIR_NS_TABLE = ("            fields = {\"name\": name, \"start\": pos, \"stop\": cur, \"nbytes\": cur - pos - 1, \"dbtype\": dbtype,\n"
                 "                      \"size\": @SIZE@, \"trailer\": trailer, \"headers\": headers}\n            sns = SimpleNamespace(**fields)\n")

RECIPES = [
    # ------------------------------------------------------------------ break: decode sizes (R2)
    ("C11", "break", ["C11-R2"], OP2, "        hbytes = 3 * self._ibytes\n", "        hbytes = 12\n", "DYNAMICS header read with a fixed 12 bytes (wrong with 64-bit keys)"),
    ("C11", "break", ["C11-R2"], OP2, "        key = self._Str.unpack(self._fileh.read(self._ibytes))[0]\n        self._fileh.read(4)\n        return key",
     "        key = self._Str.unpack(self._fileh.read(4))[0]\n        self._fileh.read(4)\n        return key", "_getkey reads 4 bytes for the key whatever the key width"),
    ("C11", "break", ["C11-R2"], OP2, "        key = self._Str.unpack(self._fileh.read(self._ibytes))[0]\n        self._fileh.read(4)\n        return key",
     "        key = self._Str.unpack(self._fileh.read(self._ibytes))[1]\n        self._fileh.read(4)\n        return key", "_getkey takes item 1 of a one-item struct"),
    # ------------------------------------------------------------------ break: cut-over (R1)
    ("C11", "break", ["C11-R1"], OP4, "        if mtype & 1:\n            numform = self._str_sr", "        if mtype & 2:\n            numform = self._str_sr",
     "binary loader selects the single-precision formats by the wrong bit of the type"),
    ("C11", "break", ["C11-R1"], OP2, '            frm = self._rfrm\n', '            frm = self._endian + "f4"\n', "seeded D: single-precision fromfile dtype hard-wired to 4 bytes"),
    ("C11", "break", ["C11-R1"], OP2, "                        ndata = np.fromfile(self._fileh, self._intstr, key - 3)", "                        ndata = np.fromfile(self._fileh, self._intstr, key)",
     "DYNAMICS fromfile route reads 3 values too many"),
    ("C11", "break", ["C11-R1"], OP4, "            wper = self._wordsperdouble  # should this be 2 no matter what?", "            wper = 2  # should this be 2 no matter what?",
     "two words per double also with 64-bit words"),
    # ------------------------------------------------------------------ break: sibling decoders (R3)
    ("C11", "break", ["C11-R3"], OP4, "                nwords -= L + 1\n                L = (L - 1) // wper", "                nwords -= L + 2\n                L = (L - 1) // wper",
     "binary bigmat counts one word too many per string"),
    ("C11", "break", ["C11-R3"], OP4, "                nwords -= L + 1\n                L = (L - 1) // wper", "                nwords -= L + 1\n                L = L // wper",
     "binary bigmat string length off by one"),
    ("C11", "break", ["C11-R3", "C11-R4"], OP4, "        nlines = (L - 1) // perline + 1\n", "        nlines = L // perline + 1\n", "ASCII block reads one line too many when L is a multiple of perline"),
    ("C11", "break", ["C11-R3"], OP4, "                L = int(line[c_slice]) - 1  # L\n                r = int(line[r_slice]) - 1  # irow-1", "                L = int(line[c_slice]) - 1  # L\n                r = int(line[r_slice])  # irow-1",
     "ASCII bigmat first row off by one"),
    ("C11", "break", ["C11-R3"], OP4, "        wper = 1 if mtype & 1 else 2\n        line = self._fileh.readline()\n        linelen", "        wper = 2 if mtype & 1 else 1\n        line = self._fileh.readline()\n        linelen",
     "ASCII loader: words per value swapped between single and double precision"),
    # ------------------------------------------------------------------ break: placement (R6)
    ("C11", "break", ["C11-R6"], OP2, "[0] - 1\n                if mtype > 2:\n                    r *= 2\n                n = (reclen - intsize) // bytes_per\n                if n < self._rowsCutoff:",
     "[0]\n                if mtype > 2:\n                    r *= 2\n                n = (reclen - intsize) // bytes_per\n                if n < self._rowsCutoff:",
     "rdop2matrix: strings stored one row too low"),
    ("C11", "break", ["C11-R6"], OP2, "                if mtype > 2:\n                    r *= 2\n                n = (reclen - intsize) // bytes_per\n                if n < self._rowsCutoff:",
     "                n = (reclen - intsize) // bytes_per\n                if n < self._rowsCutoff:", "rdop2matrix: complex strings not placed by pairs of reals"),
    ("C11", "break", ["C11-R6"], OP2, "                    data[i : i + n] = np.fromfile(f, frm, n)", "                    data[i + 1 : i + n] = np.fromfile(f, frm, n)",
     "rdop2record: fromfile route stores from one past the cursor"),
    # ------------------------------------------------------------------ break: read == skip (R4)
    ("C11", "break", ["C11-R4"], OP2, "                self._fileh.seek(reclen, 1)\n", "                self._fileh.seek(reclen - 4, 1)\n", "skipop2matrix skips 4 bytes too few per record"),
    ("C11", "break", ["C11-R4"], OP2, "                else:\n                    self._fileh.seek((key - 3) * self._ibytes, 1)", "                else:\n                    self._fileh.seek((key - 2) * self._ibytes, 1)",
     "DYNAMICS: the skip route consumes one word more than the read routes"),
    ("C11", "break", ["C11-R4"], OP2, "            self._getkey()\n            dtype = self._getkey()\n        self.rdop2eot()\n\n    def skipop2table", "            dtype = self._getkey()\n        self.rdop2eot()\n\n    def skipop2table",
     "skipop2matrix reads one trailing key per column instead of two"),
    ("C11", "break", ["C11-R4"], OP2, "    def _skipkey(self, n):\n        \"\"\"Skips `n` key triplets ([reclen, key, endrec]).\"\"\"\n        self._fileh.read(n * (8 + self._ibytes))",
     "    def _skipkey(self, n):\n        \"\"\"Skips `n` key triplets ([reclen, key, endrec]).\"\"\"\n        self._fileh.read(n * 12)", "_skipkey assumes 4-byte keys"),
    ("C11", "break", ["C11-R4"], OP4, "        delta = 4 - bi\n", "        delta = 8 - bi\n", "_skipop4_binary skips 4 bytes too many per record"),
    ("C11", "break", ["C11-R4"], OP4, "        while icol <= cols:\n", "        while icol < cols:\n", "_skipop4_binary stops before the sentinel column"),
    ("C11", "break", ["C11-R4"], OP4, "        nbytes = reclen - 3 * self._bytes_i + 4\n", "        nbytes = reclen - 3 * self._bytes_i + 8\n", "4 bytes too many after the sentinel record"),
    ("C11", "break", ["C11-R4"], OP4, "                    elems -= L + 2\n                    L //= wper\n                    # read column as a long string\n                    nlines = (L + perline - 1) // perline",
     "                    elems -= L + 2\n                    L //= wper\n                    # read column as a long string\n                    nlines = L // perline", "ASCII bigmat skipper rounds the number of lines down"),
    ("C11", "break", ["C11-R4"], OP4, "            fp.read(4)\n            reclen = s4(fp.read(4))[0]\n            c, r, nwords = s3(fp.read(b3))\n            c -= 1\n        return retrn(rows, cols, X), reclen\n\n    def _rd_bigmat_binary",
     "            reclen = s4(fp.read(4))[0]\n            c, r, nwords = s3(fp.read(b3))\n            c -= 1\n        return retrn(rows, cols, X), reclen\n\n    def _rd_bigmat_binary",
     "dense binary reader forgets the end-of-record marker"),
    ("C11", "break", ["C11-R4"], OP4, "        r = int(line[r_slice])\n        if r > 0:\n            while c < cols:", "        r = int(line[r_slice])\n        if r >= 0:\n            while c < cols:",
     "ASCII skipper takes the dense arm for sparse columns (row field 0)"),
    ("C11", "break", ["C11-R4"], OP4, "        bigmat = rows < 0 or rows >= self._rows4bigmat\n", "        bigmat = rows < 0 or rows > self._rows4bigmat\n",
     "ASCII skipper and loader disagree on the layout of a matrix with exactly _rows4bigmat rows"),
    ("C11", "break", ["C11-R4"], OP4, "        icol = 1\n        bi = self._bytes_i", "        icol = 2\n        bi = self._bytes_i", "_skipop4_binary skips nothing for a one-column matrix"),
    # ------------------------------------------------------------------ break: placement (R3 dense, R6 matrix)
    ("C11", "break", ["C11-R3"], OP4, "        while c < cols:\n            r -= 1\n            nwords //= wper", "        while c < cols:\n            r -= 2\n            nwords //= wper",
     "dense binary columns stored one row too high"),
    ("C11", "break", ["C11-R6"], OP2, "        self.rdop2eot()\n        if mtype > 2:\n            matrix = matrix.T.view(complex).T", "        self.rdop2eot()\n        if mtype > 3:\n            matrix = matrix.T.view(complex).T",
     "rdop2matrix: type 3 allocated by pairs but not viewed as complex"),
    # ------------------------------------------------------------------ break: listing == read (R5)
    ("C11", "break", ["C11-R5"], OP4, "        X = init(rows, cols)\n        cutoff, s3, b3, s4 = self._get_cutoff_etc()\n        s2, b2 = self._get_s2()", "        X = init(cols, rows)\n        cutoff, s3, b3, s4 = self._get_cutoff_etc()\n        s2, b2 = self._get_s2()",
     "binary bigmat reader allocates the transposed shape"),
    ("C11", "break", ["C11-R5"], OP4, "                self._skipop4_binary(cols)\n                if listonly:\n                    return name, (abs(rows), cols), form, mtype",
     "                self._skipop4_binary(cols)\n                if listonly:\n                    return name, (abs(cols), rows), form, mtype", "binary listing reports (cols, rows)"),
    ("C11", "break", ["C11-R5"], OP4, "            fp.read(4)\n            if patternlist and name not in patternlist:\n                skip = 1", "            fp.read(4)\n            if patternlist and name in patternlist:\n                skip = 1",
     "binary loader skips the requested names"),
    ("C11", "break", ["C11-R5"], OP2, "                size = (trailer[2], trailer[1])\n", "                size = (trailer[1], trailer[2])\n", "directory reports (cols, rows)"),
    # ------------------------------------------------------------------ break: announced format (R7), names (R8)
    ("C11", "break", ["C11-R7"], OP4, "                numformat = line[n_slice.stop :].strip().upper()\n                if numformat.startswith(\"1P,\"):\n                    numformat = numformat[3:]\n",
     "                numformat = line[n_slice.stop :].strip().upper().lstrip(\"1P,\")\n", "seeded C: lstrip used as prefix removal"),
    ("C11", "break", ["C11-R7"], OP4, "                if numformat.startswith(\"1P,\"):\n                    numformat = numformat[3:]\n", "                if numformat.startswith(\"1P,\"):\n                    numformat = numformat[2:]\n",
     "prefix removed by the wrong length"),
    ("C11", "break", ["C11-R7"], OP4, "        linelen = perline * numlen\n", "        linelen = perline * numlen + 1\n", "data lines cut one character too late"),
    ("C11", "break", ["C11-R8"], OP2, "            patt = patt.upper()\n            if patt[-1] == \"*\":\n                if name.startswith(patt[:-1]):\n                    return True\n            elif name == patt:\n                return True",
     "            if name.startswith(patt.upper().rstrip(\"*\")):\n                return True", "seeded E: exact names become prefixes"),
    # ------------------------------------------------------------------ neutral: re-spellings the rules must not notice
    ("C11", "neutral", [], OP2, "            self._fileh.seek(reclen + 4, 1)\n            key = self._getkey()", "            self._fileh.seek(reclen, 1)\n            self._fileh.read(4)\n            key = self._getkey()",
     "skipop2record: seek + read instead of one seek"),
    ("C11", "neutral", [], OP2, "            key = self._getkey()\n        self._skipkey(2)\n\n    def rdop2tabheaders", "            key = self._getkey()\n        self._getkey()\n        self._getkey()\n\n    def rdop2tabheaders",
     "skipop2record: two _getkey() instead of _skipkey(2)"),
    ("C11", "neutral", [], OP2, "                self._fileh.seek(reclen, 1)\n                self._fileh.read(4)  # endrec\n                key = self._getkey()",
     "                f = self._fileh\n                f.seek(reclen + 4, 1)\n                f.read(4)\n                nextkey = self._Str.unpack(f.read(self._ibytes))[0]\n                f.read(4)\n                key = nextkey",
     "skipop2matrix: _getkey inlined, handle aliased, one seek for payload + end marker"),
    ("C11", "neutral", [], OP2, "                if n < self._rowsCutoff:\n                    b = n * bytes_per\n                    data[i : i + n] = struct.unpack(frmu % n, f.read(b))\n                else:\n                    data[i : i + n] = np.fromfile(f, frm, n)",
     "                if n >= self._rowsCutoff:\n                    vals = np.fromfile(f, frm, n)\n                else:\n                    vals = struct.unpack(frmu % n, f.read(bytes_per * n))\n                data[i : i + n] = vals",
     "rdop2record: cut-over inverted, common store"),
    ("C11", "neutral", [], OP2, '            self._intstr = self._endian + "i8"\n            self._intstru = self._endian + "%dq"', '            self._intstr = f"{self._endian}i8"\n            self._intstru = f"{self._endian}%dq"',
     "_op2open: f-strings for the 64-bit integer formats"),
    ("C11", "neutral", [], OP2, "            elif name == patt:\n                return True", "            elif patt == name:\n                return True", "_has_match: equality written the other way round"),
    ("C11", "neutral", [], OP2, "            if patt[-1] == \"*\":\n                if name.startswith(patt[:-1]):\n                    return True", "            if patt.endswith(\"*\"):\n                if name.startswith(patt[:-1]):\n                    return True",
     "_has_match: endswith for the wild card test"),
    ("C11", "neutral", [], OP4, "                    elems -= L + 1\n                    L //= wper\n                    # read column as a long string\n                    nlines = (L + perline - 1) // perline\n                    for _ in it.repeat(None, nlines):",
     "                    elems -= L + 1\n                    L //= wper\n                    # read column as a long string\n                    nlines = (L - 1) // perline + 1\n                    for _ in range(nlines):",
     "_skipop4_ascii (nonbigmat): the other ceiling formula, range() loop"),
    ("C11", "neutral", [], OP4, "                r = IS - ((L + 1) << 16) - 1  # irow-1\n                nwords -= L + 1  # words left", "                r = (IS & 0xFFFF) - 1  # irow-1\n                nwords -= IS >> 16  # words left",
     "_rd_nonbigmat_binary: 16-bit mask for the row, shift for the word count"),
    ("C11", "neutral", [], OP4, "        nbytes = reclen - 3 * self._bytes_i + 4\n", "        nbytes = 4 + reclen - self._bytes_iii\n", "_loadop4_binary: _bytes_iii for the three header words"),
    ("C11", "neutral", [], OP4, "        delta = 4 - bi\n        while icol <= cols:\n            # Read record length at start of record:\n            reclen = self._Str_i4.unpack(self._fileh.read(4))[0]\n            # Read column header\n            icol = self._Str_i.unpack(self._fileh.read(bi))[0]\n            self._fileh.seek(reclen + delta, 1)",
     "        while not icol > cols:\n            reclen = self._Str_i4.unpack(self._fileh.read(4))[0]\n            icol = self._Str_i.unpack(self._fileh.read(bi))[0]\n            self._fileh.seek(reclen - bi, 1)\n            self._fileh.read(4)",
     "_skipop4_binary: negated test, seek to the end of the record then read the marker"),
    ("C11", "neutral", [], OP4, "                if numformat.startswith(\"1P,\"):\n                    numformat = numformat[3:]\n", "                numformat = numformat.removeprefix(\"1P,\")\n", "_loadop4_ascii: str.removeprefix"),
    ("C11", "neutral", [], OP2, "        # cannot use goto_next here; dblist may not yet be available\n        dtype = 1", "        # cannot use goto_next here; dblist may not yet be available\n        dtype = 2",
     "skipop2matrix: any positive start value enters the column loop"),
    ("C11", "neutral", [], OP4, "        icol = 1\n        bi = self._bytes_i", "        icol = 0\n        bi = self._bytes_i", "_skipop4_binary: any start value <= 1 enters the loop"),
    ("C11", "neutral", [], OP4, "            if nwords < cutoff:\n", "            if nwords <= cutoff:\n", "_rd_dense_binary: which route decodes exactly `cutoff` values is immaterial"),
    ("C11", "neutral", [], OP4, "        cutoff, s3, b3, s4 = self._get_cutoff_etc()\n        s1, b1 = self._get_s1()\n", "        cutoff = self._rowsCutoff\n        s3, b3 = self._Str_iii.unpack, self._bytes_iii\n        s4 = self._Str_i4.unpack\n        s1, b1 = self._Str_i.unpack, self._bytes_i\n",
     "_rd_nonbigmat_binary: getters inlined"),

    # ================================================================== second hardening pass: new forms the evaluator understands, each with a
    # behaviour-preserving variant (must stay silent) and the same form with a defect inside (must be reported)
    # ------------------------------------------------------------------ loop test that reads (walrus)
    ("C11", "neutral", [], OP2, _SKIPREC, _SKIPREC_WALRUS.replace("@SEEK@", "reclen + 4"), "skipop2record: the next key read in the loop test (walrus)"),
    ("C11", "break", ["C11-R4"], OP2, _SKIPREC, _SKIPREC_WALRUS.replace("@SEEK@", "reclen"), "skipop2record (walrus loop): end marker not skipped"),
    # ------------------------------------------------------------------ loop with its exit in the middle (rotated)
    ("C11", "neutral", [], OP2, _SKIPREC, _SKIPREC_MIDDLE.replace("@SEEK@", "reclen + 4"), "skipop2record: while True / read key / break / skip"),
    ("C11", "break", ["C11-R4"], OP2, _SKIPREC, _SKIPREC_MIDDLE.replace("@SEEK@", "reclen + 8"), "skipop2record (exit in the middle): 4 bytes too many per record"),
    # ------------------------------------------------------------------ loop tested at its end
    ("C11", "neutral", [], OP2, _SKIPMAT_TAIL, "            self._getkey()\n            dtype = self._getkey()\n            if dtype <= 0:\n                break\n        self.rdop2eot()\n\n    def skipop2table", "skipop2matrix: column loop left by a break at its end (plus the original test)"),
    ("C11", "neutral", [], OP2, _SKIPMAT, _SKIPMAT_DO.replace("@TRAIL@", "            self._getkey()\n"), "skipop2matrix: while True ... if dtype <= 0: break"),
    ("C11", "break", ["C11-R4"], OP2, _SKIPMAT, _SKIPMAT_DO.replace("@TRAIL@", ""), "skipop2matrix (tested at its end): one trailing key per column instead of two"),
    # ------------------------------------------------------------------ floor-division identities
    ("C11", "neutral", [], OP4, _SKIP_DENSE, _SKIP_DENSE.replace("(elems + perline - 1) // perline", "-(-elems // perline)"), "_skipop4_ascii (dense): ceil written -(-n // p)"),
    ("C11", "break", ["C11-R4"], OP4, _SKIP_DENSE, _SKIP_DENSE.replace("(elems + perline - 1) // perline", "-(elems // perline)"), "_skipop4_ascii (dense): -(n // p), a sign slip of the ceil idiom"),
    ("C11", "neutral", [], OP4, "        fh = self._fileh\n        nlines = (L - 1) // perline + 1\n", "        fh = self._fileh\n        nlines = -(-L // perline)\n", "_get_ascii_block: ceil written -(-L // p)"),
    ("C11", "neutral", [], OP4, _NB_BIN, "                r = IS % 65536 - 1  # irow-1\n                L = (IS - (r + 1)) // 65536 - 1  # L\n                nwords -= L + 1  # words left\n", "_rd_nonbigmat_binary: % and // 65536"),
    ("C11", "break", ["C11-R3"], OP4, _NB_BIN, "                r = IS % 32768 - 1  # irow-1\n                L = IS // 65536 - 1  # L\n                nwords -= L + 1  # words left\n", "_rd_nonbigmat_binary: row taken modulo 2**15"),
    ("C11", "neutral", [], OP4, _NB_ASC, "                L, r = divmod(IS, 65536)\n                L -= 1\n                r -= 1\n                elems -= L + 1\n", "_rd_nonbigmat_ascii: divmod"),
    ("C11", "break", ["C11-R3"], OP4, _NB_ASC, "                L, r = divmod(IS, 65536)\n                L -= 1\n                elems -= L + 1\n", "_rd_nonbigmat_ascii: divmod, row not made 0-based"),
    # ------------------------------------------------------------------ one read, slices of it decoded
    ("C11", "neutral", [], OP2, _GETKEY, "        triplet = self._fileh.read(8 + self._ibytes)\n        return self._Str.unpack(triplet[4 : 4 + self._ibytes])[0]\n", "_getkey: one read, the key sliced out"),
    ("C11", "neutral", [], OP2, _GETKEY, "        triplet = self._fileh.read(8 + self._ibytes)\n        return self._Str.unpack(triplet[4:-4])[0]\n", "_getkey: one read, negative slice bound"),
    ("C11", "break", ["C11-R2"], OP2, _GETKEY, "        triplet = self._fileh.read(8 + self._ibytes)\n        return self._Str.unpack(triplet[4:8])[0]\n", "_getkey: the key sliced out with a fixed width"),
    ("C11", "break", ["C11-R4"], OP2, _GETKEY, "        triplet = self._fileh.read(4 + self._ibytes)\n        return self._Str.unpack(triplet[4:])[0]\n", "_getkey: one read that forgets the end marker"),
    # ------------------------------------------------------------------ property, local function, lambda
    ("C11", "neutral", [], OP2, _SKIPKEY, _SKIPKEY_PROP.replace("@SIZE@", "8 + self._ibytes"), "_skipkey: size of a key triplet as a property"),
    ("C11", "break", ["C11-R4"], OP2, _SKIPKEY, _SKIPKEY_PROP.replace("@SIZE@", "12"), "_skipkey: property that assumes 4-byte keys"),
    ("C11", "neutral", [], OP4, _DENSE_BIN_LOOP, _DENSE_BIN_LOCAL.replace("@MARK@", "            fp.read(4)\n"), "_rd_dense_binary: local function for the end of the record and the next head"),
    ("C11", "break", ["C11-R4"], OP4, _DENSE_BIN_LOOP, _DENSE_BIN_LOCAL.replace("@MARK@", ""), "_rd_dense_binary (local function): end-of-record marker forgotten"),
    ("C11", "neutral", [], OP4, _SKIPBIN_BODY, _SKIPBIN_LAMBDA.replace("@N@", "bi"), "_skipop4_binary: lambda that reads one integer"),
    ("C11", "break", ["C11-R2"], OP4, _SKIPBIN_BODY, _SKIPBIN_LAMBDA.replace("@N@", "4"), "_skipop4_binary (lambda): column number read with 4 bytes whatever the key width"),
    # ------------------------------------------------------------------ readers called in branches, chained comparison, starred arguments
    ("C11", "neutral", [], OP4, _ASCII_CALL, _ASCII_DIRECT.replace("@DENSE@", "r > 0"), "_loadop4_ascii: the reader of the layout called in an if / elif chain"),
    ("C11", "break", ["C11-R4"], OP4, _ASCII_CALL, _ASCII_DIRECT.replace("@DENSE@", "r >= 0"), "_loadop4_ascii (readers in branches): dense reader for row field 0"),
    # ------------------------------------------------------------------ scan loop with continue; lines skipped through the file iterator
    ("C11", "neutral", [], OP4, _BIN_SCAN, _BIN_SCAN_CONT.replace("@SKIP@", "                self._skipop4_binary(cols)\n"), "_loadop4_binary: early return / continue in the scan loop"),
    ("C11", "break", ["C11-R5"], OP4, _BIN_SCAN, _BIN_SCAN_CONT.replace("@SKIP@", ""), "_loadop4_binary (continue): unrequested matrix not skipped"),
    ("C11", "neutral", [], OP4, _SKIP_DENSE, _SKIP_DENSE.replace("for _ in it.repeat(None, nlines):\n                    self._fileh.readline()", "for _ in it.islice(self._fileh, nlines):\n                    pass"), "_skipop4_ascii (dense): lines skipped by exhausting a slice of the file"),
    ("C11", "break", ["C11-R4"], OP4, _SKIP_DENSE, _SKIP_DENSE.replace("for _ in it.repeat(None, nlines):\n                    self._fileh.readline()", "for _ in it.islice(self._fileh, nlines + 1):\n                    pass"), "_skipop4_ascii (dense, islice): one line too many"),
    # ------------------------------------------------------------------ fused record loops
    ("C11", "neutral", [], OP2, _REC_LOOPS, _REC_FUSED.replace("@STEP@", "n"), "rdop2record: preallocated and list loops fused"),
    ("C11", "break", ["C11-R6"], OP2, _REC_LOOPS, _REC_FUSED.replace("@STEP@", "key"), "rdop2record (fused loops): cursor advanced by the key"),
    # ------------------------------------------------------------------ for over itertools.count / iter(f, sentinel)
    ("C11", "neutral", [], OP4, "        icol = 1\n        bi = self._bytes_i\n        delta = 4 - bi\n        while icol <= cols:\n", "        bi = self._bytes_i\n        delta = 4 - bi\n        icol = 1\n        while True:\n            if not icol <= cols:\n                break\n", "_skipop4_binary: while True with the test as a guard"),
    # ------------------------------------------------------------------ literal lookup table for the per-key-width formats
    ("C11", "neutral", [], OP2, _OP2_FORMATS, _OP2_TABLE.replace("@I8@", "%dq"), "_op2open: formats taken from a literal table keyed by the key width"),
    ("C11", "break", ["C11-R2"], OP2, _OP2_FORMATS, _OP2_TABLE.replace("@I8@", "%di"), "_op2open (lookup table): 4-byte struct code for the 8-byte integers"),
    # ------------------------------------------------------------------ a relative move written seek(tell() + n)
    ("C11", "neutral", [], OP4, "            self._fileh.seek(reclen + delta, 1)\n", "            self._fileh.seek(self._fileh.tell() + reclen + delta)\n", "_skipop4_binary: seek(tell() + n)"),
    ("C11", "break", ["C11-R4"], OP4, "            self._fileh.seek(reclen + delta, 1)\n", "            self._fileh.seek(self._fileh.tell() + reclen)\n", "_skipop4_binary (seek(tell() + n)): the 4 - word size correction dropped"),
    # ------------------------------------------------------------------ obligations added in the second pass
    ("C11", "break", ["C11-R3"], OP4, "            while nwords > 0:\n                L, r = s2(fp.read(b2))", "            while nwords >= 0:\n                L, r = s2(fp.read(b2))", "binary bigmat: one string too many per column (words left >= 0)"),
    ("C11", "break", ["C11-R7"], OP4, "                    perline = int(numformat[:p])\n", "", "the announced values-per-line is ignored (always 5)"),
    ("C11", "break", ["C11-R7"], OP4, "                    numlen = int(numformat[p + 1 :].split(\".\")[0])\n", "                    numlen = 16\n", "the announced field width is ignored (always 16)"),
]

# ---------------------------------------------------------------------------------------------------------------- third pass
_BLOCK = "        blocklist = [ln[:linelen] for ln in it.islice(fh, nlines)]\n        s = \"\".join(blocklist)\n"
_BLOCK_COMP = "        lines = [fh.readline() for _ in range(@N@)]\n        s = \"\".join(ln[:linelen] for ln in lines)\n"
_SKIPREC_GEN = ("        def records():\n            key = self._getkey()\n            while key > 0:\n                reclen = self._Str4.unpack(self._fileh.read(4))[0]\n"
                "                yield reclen\n                key = self._getkey()\n\n        for reclen in records():\n            self._fileh.seek(@SEEK@, 1)\n        self._skipkey(2)\n")
_SKIPREC_FLAG = ("        done = self._getkey() <= 0\n        while not done:\n            reclen = self._Str4.unpack(self._fileh.read(4))[0]\n"
                 "            self._fileh.seek(@SEEK@, 1)\n            done = self._getkey() <= 0\n        self._skipkey(2)\n")
_SKIPBIN_HEAD = "        icol = 1\n        bi = self._bytes_i\n        delta = 4 - bi\n        while icol <= cols:\n"
_SKIPBIN_TAIL = "            self._fileh.seek(reclen + delta, 1)\n\n    def _get_cutoff_etc(self):"
_SKIPBIN_ALL = ("        icol = 1\n        bi = self._bytes_i\n        delta = 4 - bi\n        while icol <= cols:\n            # Read record length at start of record:\n"
                "            reclen = self._Str_i4.unpack(self._fileh.read(4))[0]\n            # Read column header\n"
                "            icol = self._Str_i.unpack(self._fileh.read(bi))[0]\n            self._fileh.seek(reclen + delta, 1)\n")
_SKIPBIN_FLAG = ("        icol = 1\n        bi = self._bytes_i\n        delta = 4 - bi\n        more = icol <= cols\n        while more:\n"
                 "            reclen = self._Str_i4.unpack(self._fileh.read(4))[0]\n            icol = self._Str_i.unpack(self._fileh.read(bi))[0]\n"
                 "            self._fileh.seek(reclen + delta, 1)\n            more = icol @OP@ cols\n")
_MAT_FORMATS = ("        if mtype & 1:  # single precision\n            frm = self._rfrm\n            frmu = self._rfrmu\n            bytes_per = self._fbytes\n"
                "        else:\n            frm = self._endian + \"f8\"\n            frmu = self._endian + \"%dd\"\n            bytes_per = 8\n")
_MAT_RECORD = ("        if mtype & 1:  # single precision\n            real = SimpleNamespace(dtype=self._rfrm, struct=self._rfrmu, nbytes=@NB@)\n"
               "        else:\n            real = SimpleNamespace(dtype=self._endian + \"f8\", struct=self._endian + \"%dd\", nbytes=8)\n"
               "        frm, frmu, bytes_per = real.dtype, real.struct, real.nbytes\n")
_REC_CHAIN = ("        if not form or form == \"int\":\n            frm = self._intstr\n            frmu = self._intstru\n            bytes_per = self._ibytes\n"
              "        elif form == \"uint\":\n            frm = self._intstr.replace(\"i\", \"u\")\n            frmu = self._intstru.replace(\"i\", \"I\").replace(\"q\", \"Q\")\n"
              "            bytes_per = self._ibytes\n        elif form == \"double\":\n            frm = self._endian + \"f8\"\n            frmu = self._endian + \"%dd\"\n"
              "            bytes_per = 8\n        elif form == \"single\":\n            frm = self._endian + \"f4\"\n            frmu = self._endian + \"%df\"\n"
              "            bytes_per = 4\n        elif form == \"bytes\":\n")
_REC_MATCH = ("        match form:\n            case kind if not kind or kind == \"int\":\n                frm, frmu, bytes_per = self._intstr, self._intstru, self._ibytes\n"
              "            case \"uint\":\n                frm, frmu, bytes_per = self._intstr.replace(\"i\", \"u\"), @UINT@, self._ibytes\n"
              "            case \"double\":\n                frm, frmu, bytes_per = self._endian + \"f8\", self._endian + \"%dd\", 8\n"
              "            case \"single\":\n                frm, frmu, bytes_per = self._endian + \"f4\", self._endian + \"%df\", 4\n"
              "            case _:\n                frm = None\n        if frm is not None:\n            pass\n        elif form == \"bytes\":\n")
_DIR_LOADER = ("            if self._ascii:\n                loadfunc = self._loadop4_ascii\n            else:\n                loadfunc = self._loadop4_binary\n"
               "            while 1:\n                name, X, form, mtype = loadfunc(listonly=True)\n")
_DIR_TABLE = ("            loadfunc = {True: @A@, False: @B@}[bool(self._ascii)]\n"
              "            while 1:\n                name, X, form, mtype = loadfunc(listonly=True)\n")
_SKIP_DENSE_LINES = "                nlines = (elems + perline - 1) // perline\n                for _ in it.repeat(None, nlines):\n                    self._fileh.readline()\n"
_SKIP_NB_LINES = ("                    elems -= L + 1\n                    L //= wper\n                    # read column as a long string\n"
                  "                    nlines = (L + perline - 1) // perline\n")
_SKIP_NB_DIVMOD = ("                    elems -= L + 1\n                    L //= wper\n                    # read column as a long string\n"
                   "                    nlines, partial = divmod(L, perline)\n                    nlines += partial > @K@\n")
_DENSE_ASCII_LOOP = ("        while c < cols:\n            elems = int(line[e_slice])\n            r -= 1\n            # read column as a long string\n"
                     "            s = self._get_ascii_block(elems, perline, linelen)\n            put(X, r, c, s, elems, numlen)\n            line = self._fileh.readline()\n"
                     "            c = int(line[c_slice]) - 1\n            r = int(line[r_slice])\n        return retrn(rows, cols, X)\n")
_DENSE_ASCII_CARRIED = ("        elems = int(line[e_slice])\n        while c < cols:\n            r -= 1\n            # read column as a long string\n"
                        "            s = self._get_ascii_block(elems, perline, linelen)\n            put(X, r, c, s, elems, numlen)\n            line = self._fileh.readline()\n"
                        "            c, r, elems = (int(line[i : i + 8]) for i in range(@R@))\n            c -= 1\n        return retrn(rows, cols, X)\n")

RECIPES += [
    # ------------------------------------------------------------------ a comprehension that reads the file is the loop it abbreviates
    ("C11", "neutral", [], OP4, _BLOCK, _BLOCK_COMP.replace("@N@", "nlines"), "_get_ascii_block: the lines of a block read by a comprehension of readline() calls"),
    ("C11", "break", ["C11-R3", "C11-R4"], OP4, _BLOCK, _BLOCK_COMP.replace("@N@", "nlines - 1"), "_get_ascii_block (comprehension): one line too few per block"),
    # ------------------------------------------------------------------ records iterated by a generator
    ("C11", "neutral", [], OP2, _SKIPREC, _SKIPREC_GEN.replace("@SEEK@", "reclen + 4"), "skipop2record: the records come from a (local) generator"),
    ("C11", "break", ["C11-R4"], OP2, _SKIPREC, _SKIPREC_GEN.replace("@SEEK@", "reclen"), "skipop2record (generator): end-of-record marker not skipped"),
    # ------------------------------------------------------------------ loops steered by a flag
    ("C11", "neutral", [], OP2, _SKIPREC, _SKIPREC_FLAG.replace("@SEEK@", "reclen + 4"), "skipop2record: `done` flag computed before the loop and at the end of its body"),
    ("C11", "break", ["C11-R4"], OP2, _SKIPREC, _SKIPREC_FLAG.replace("@SEEK@", "reclen + 8"), "skipop2record (flag): skips 4 bytes too many per record"),
    ("C11", "neutral", [], OP4, _SKIPBIN_ALL, _SKIPBIN_FLAG.replace("@OP@", "<="), "_skipop4_binary: `more` flag"),
    ("C11", "break", ["C11-R4"], OP4, _SKIPBIN_ALL, _SKIPBIN_FLAG.replace("@OP@", "<"), "_skipop4_binary (flag): stops one record early - the sentinel column is not consumed"),
    # ------------------------------------------------------------------ formats kept in a small value object
    ("C11", "neutral", [], OP2, _MAT_FORMATS, _MAT_RECORD.replace("@NB@", "self._fbytes"), "rdop2matrix: the three formats of the reals in a SimpleNamespace"),
    ("C11", "break", ["C11-R1"], OP2, _MAT_FORMATS, _MAT_RECORD.replace("@NB@", "4"), "rdop2matrix (SimpleNamespace): 4 bytes per single-precision value whatever the key width"),
    # ------------------------------------------------------------------ match statement
    ("C11", "neutral", [], OP2, _REC_CHAIN, _REC_MATCH.replace("@UINT@", "self._intstru.replace(\"i\", \"I\").replace(\"q\", \"Q\")"), "rdop2record: the `form` chain as a match statement"),
    ("C11", "break", ["C11-R1"], OP2, _REC_CHAIN, _REC_MATCH.replace("@UINT@", "self._intstru"), "rdop2record (match): 'uint' decoded signed on the struct side"),
    # ------------------------------------------------------------------ sizes taken from the structs
    ("C11", "neutral", [], OP2, "        self._fileh.read(n * (8 + self._ibytes))\n", "        self._fileh.read(n * (8 + self._Str.size))\n", "_skipkey: the key size is the size of the key struct"),
    ("C11", "break", ["C11-R4"], OP2, "        self._fileh.read(n * (8 + self._ibytes))\n", "        self._fileh.read(n * (8 + self._Str4.size))\n", "_skipkey: size of the 4-byte marker struct used for the key"),
    # ------------------------------------------------------------------ loader picked from a table
    ("C11", "neutral", [], OP4, _DIR_LOADER, _DIR_TABLE.replace("@A@", "self._loadop4_ascii").replace("@B@", "self._loadop4_binary"), "dir: loader picked from a two-entry table"),
    ("C11", "break", ["C11-R5"], OP4, _DIR_LOADER, _DIR_TABLE.replace("@A@", "self._loadop4_binary").replace("@B@", "self._loadop4_ascii"), "dir (table): ascii and binary loaders swapped"),
    # ------------------------------------------------------------------ other ways to count the lines of a block
    ("C11", "neutral", [], OP4, _SKIP_DENSE_LINES, "                for _ in range(0, elems, perline):\n                    self._fileh.readline()\n", "_skipop4_ascii (dense): one line per `perline` values, range with a step"),
    ("C11", "break", ["C11-R4"], OP4, _SKIP_DENSE_LINES, "                for _ in range(1, elems, perline):\n                    self._fileh.readline()\n", "_skipop4_ascii (dense, range with a step): a line short when elems % perline == 1"),
    ("C11", "neutral", [], OP4, _SKIP_NB_LINES, _SKIP_NB_DIVMOD.replace("@K@", "0"), "_skipop4_ascii (nonbigmat): divmod and `+= partial > 0`"),
    ("C11", "break", ["C11-R3", "C11-R4"], OP4, _SKIP_NB_LINES, _SKIP_NB_DIVMOD.replace("@K@", "1"), "_skipop4_ascii (nonbigmat, divmod): a block that ends with one value loses its last line"),
    # ------------------------------------------------------------------ a header value carried through the loop instead of re-read at its top
    ("C11", "neutral", [], OP4, _DENSE_ASCII_LOOP, _DENSE_ASCII_CARRIED.replace("@R@", "0, 24, 8"), "_rd_dense_ascii: the column header parsed at once, `elems` carried"),
    ("C11", "break", ["C11-R3", "C11-R4"], OP4, _DENSE_ASCII_LOOP, _DENSE_ASCII_CARRIED.replace("@R@", "0, 32, 8").replace("c, r, elems =", "c, elems, r, _x ="),
     "_rd_dense_ascii (header parsed at once): row and word count swapped"),
    # ------------------------------------------------------------------ pass 4: byte counts taken from the formats (Struct.size, dtype.itemsize, calcsize)
    ("C11", "neutral", [], OP4, "                self._bytes_sr = 8\n", "                self._bytes_sr = self._str_sr_fromfile.itemsize\n", "_op4open_read: bytes of a real = itemsize of its dtype (64-bit)"),
    ("C11", "neutral", [], OP4, "                self._bytes_sr = 4\n", "                self._bytes_sr = struct.calcsize(self._str_sr % 1)\n", "_op4open_read: bytes of a real = calcsize of its struct format (32-bit)"),
    ("C11", "neutral", [], OP4, "                self._bytes_sr = 4\n", "                self._bytes_sr = struct.Struct(self._endian + \"f\").size\n", "_op4open_read: bytes of a real = size of a struct built on the spot"),
    ("C11", "break", ["C11-R1"], OP4, "                self._bytes_sr = 8\n", "                self._bytes_sr = self._Str_i4.size\n", "_op4open_read (64-bit): bytes of a real taken from the 4-byte marker struct"),
    ("C11", "break", ["C11-R1"], OP4, "                self._bytes_sr = 4\n", "                self._bytes_sr = np.dtype(self._endian + \"f8\").itemsize\n", "_op4open_read (32-bit): bytes of a real = itemsize of the double dtype"),
    ("C11", "break", ["C11-R1"], OP4, "                self._bytes_sr = 4\n", "                self._bytes_sr = struct.calcsize(self._endian + \"h\")\n", "_op4open_read (32-bit): bytes of a real = calcsize of a 2-byte format"),
    ("C11", "neutral", [], OP2, "            frmu = self._endian + \"%df\"\n            bytes_per = 4\n", "            frmu = self._endian + \"%df\"\n            bytes_per = np.dtype(frm).itemsize\n", "rdop2record ('single'): bytes per value = itemsize of the numpy format"),
    ("C11", "neutral", [], OP2, "            frmu = self._endian + \"%df\"\n            bytes_per = 4\n", "            frmu = self._endian + \"%df\"\n            bytes_per = struct.calcsize(frmu % 1)\n", "rdop2record ('single'): bytes per value = calcsize of the struct format"),
    ("C11", "break", ["C11-R1"], OP2, "            frmu = self._endian + \"%df\"\n            bytes_per = 4\n", "            frmu = self._endian + \"%df\"\n            bytes_per = struct.calcsize(self._endian + \"d\")\n", "rdop2record ('single'): bytes per value = calcsize of the double format"),
    # ------------------------------------------------------------------ pass 4: formats returned as a tuple by a helper that raises on anything else
    ("C11", "neutral", [], OP2, _REC_REALS, _REC_REALS_HELPER.replace("@NB@", "4"), "rdop2record: (numpy format, struct format, bytes) of the real forms from a local helper that raises on other forms"),
    ("C11", "break", ["C11-R1"], OP2, _REC_REALS, _REC_REALS_HELPER.replace("@NB@", "8"), "rdop2record (helper returning a tuple): 8 bytes per single-precision value"),
    # ------------------------------------------------------------------ pass 4: formats built from a literal table keyed by the form
    ("C11", "neutral", [], OP2, _REC_REALS, _REC_REALS_TABLE.replace("@NB@", "4"), "rdop2record: (struct code, bytes) of the real forms from a literal table keyed by `form`"),
    ("C11", "break", ["C11-R1"], OP2, _REC_REALS, _REC_REALS_TABLE.replace("@NB@", "8"), "rdop2record (table keyed by form): 'single' listed with 8 bytes (numpy f8 against struct f)"),
    ("C11", "neutral", [], OP2, _MAT_BYTES, _MAT_CALCSIZE.replace("@N@", "1"), "rdop2matrix: bytes per value = calcsize of the selected struct format"),
    ("C11", "break", ["C11-R1"], OP2, _MAT_BYTES, _MAT_CALCSIZE.replace("@N@", "3"), "rdop2matrix (calcsize): bytes per value = size of three values"),
    # ------------------------------------------------------------------ pass 5: the candidates of rdop2mats are matrix entries
    ("C11", "break", ["C11-R5"], OP2, _MATS_FILTER, "            dblist = self.dbdct[name]\n", "rdop2mats: occurrences of a name taken from dbdct (tables of the same name included)"),
    ("C11", "break", ["C11-R5"], OP2, _MATS_FILTER, "            dblist = [sns for sns in self.dblist if sns.name == name]\n", "rdop2mats: occurrences filtered by name only over the whole directory list"),
    ("C11", "break", ["C11-R5"], OP2, _MATS_FILTER, "            dblist = self.dbdct.get(name, [])\n", "rdop2mats: occurrences from dbdct.get(name, [])"),
    ("C11", "break", ["C11-R5"], OP2, _MATS_FILTER, _MATS_KIND_LOOP.replace("cand.dbtype == 1 and ", ""), "rdop2mats: occurrences collected in a loop over the whole directory list by name only"),
    ("C11", "neutral", [], OP2, _MATS_FILTER, _MATS_KIND_LOOP, "rdop2mats: occurrences collected in a loop over the whole directory list by kind and name"),
    ("C11", "neutral", [], OP2, _MATS_FILTER, "            dblist = [sns for sns in self.dblist if sns.name == name and sns.dbtype > 0]\n", "rdop2mats: occurrences filtered by name and kind (> 0) over the whole directory list"),
    ("C11", "neutral", [], OP2, _MATS_FILTER, "            dblist = [sns for sns in self.dblist if sns.name == name]\n            dblist = [sns for sns in dblist if sns.dbtype != 0]\n",
     "rdop2mats: occurrences by name over the whole directory list, then filtered by kind (!= 0)"),
    ("C11", "neutral", [], OP2, _MATS_HEAD, _MATS_BYNAME, "rdop2mats: occurrences per name from a dict comprehension over the matrix-only list"),
    # ------------------------------------------------------------------ positioned read decided on the steps it makes: an absolute positioning by
    # any means (set_position, a seek of the file itself, inlined or in a helper), rdop2nt, rdop2matrix with its arguments by signature
    ("C11", "neutral", [], OP2, _RDMAT, "        self._fileh.seek(sns.start)\n        self.rdop2nt()\n        return self.rdop2matrix(sns.trailer)\n", "_rdmat: set_position inlined (seek of the file itself)"),
    ("C11", "neutral", [], OP2, _RDMAT, "        self._fileh.seek(sns.start, os.SEEK_SET)\n        self.rdop2nt()\n        return self.rdop2matrix(sns.trailer)\n", "_rdmat: seek with an explicit os.SEEK_SET"),
    ("C11", "neutral", [], OP2, _RDMAT, "        self.set_position(pos=sns.start)\n        self.rdop2nt()\n        return self.rdop2matrix(trailer=sns.trailer)\n", "_rdmat: arguments by keyword"),
    ("C11", "neutral", [], OP2, _RDMAT, "        offset, stored = sns.start, sns.trailer\n        self._fileh.seek(offset, 0)\n        _nm, trailer, _kind = self.rdop2nt()\n        return self.rdop2matrix(trailer)\n", "_rdmat: seek(offset, 0) and the trailer just re-read"),
    ("C11", "neutral", [], OP2, _RDMAT, "        fh = self._fileh\n        fh.seek(sns.start)\n        return self.rdop2matrix(self.rdop2nt()[1])\n", "_rdmat: file handle in a local, trailer = rdop2nt()[1]"),
    ("C11", "break", ["C11-R5"], OP2, _RDMAT, "        self._fileh.seek(sns.stop)\n        self.rdop2nt()\n        return self.rdop2matrix(sns.trailer)\n", "_rdmat (inlined seek): positioned to the end of the data block"),
    ("C11", "break", ["C11-R5"], OP2, _RDMAT, "        self._fileh.seek(sns.start)\n        return self.rdop2matrix(sns.trailer)\n", "_rdmat (inlined seek): name and trailer records not passed before the columns are decoded"),
    ("C11", "break", ["C11-R5"], OP2, _RDMAT, "        self.set_position(sns.start)\n        self.rdop2nt()\n        return self.rdop2matrix(sns.size)\n", "_rdmat: decoded with the size pair instead of the trailer"),
    ("C11", "break", ["C11-R5"], OP2, _RDMAT, "        self._fileh.seek(sns.start)\n        nt = self.rdop2nt()\n        return self.rdop2matrix(nt[2])\n", "_rdmat (inlined seek): decoded with the kind word rdop2nt returns instead of the trailer"),
    # a selection by filter(): of the matrix-only list it is one; of a mixed collection, by name only, it stays mixed
    ("C11", "neutral", [], OP2, _MATS_FILTER, "            dblist = list(filter(lambda sns: sns.name == name, matrices))\n", "rdop2mats: occurrences selected with filter() from the matrix-only list"),
    ("C11", "neutral", [], OP2, _MATS_FILTER, "            dblist = tuple(filter(lambda s: s.name == name, matrices))\n", "rdop2mats: occurrences as a tuple of filter()"),
    ("C11", "break", ["C11-R5"], OP2, _MATS_FILTER, "            dblist = list(filter(lambda sns: sns.name == name, self.dblist))\n", "rdop2mats: filter() by name only over the whole directory list"),
    ("C11", "neutral", [], OP2, _MATS_FILTER, "            dblist = list(filter(lambda s: s.dbtype == 1 and s.name == name, self.dblist))\n", "rdop2mats: filter() by kind and name over the whole directory list"),
    ("C11", "neutral", [], OP2, _MATS_FILTER, "            dblist = list(filter(lambda s: s.name == name and s.dbtype > 0, self.dbdct[name]))\n", "rdop2mats: filter() by name and kind (> 0) over dbdct[name]"),
    # f"{n:d}" of a count read from the file is the repeat count of the struct format
    ("C11", "neutral", [], OP2, _NT_FRM, _NT_FRM.replace("self._intstru % key", "f\"{self._endian}{key:d}{self._i}\""), "rdop2nt: trailer format as an f-string with {key:d}"),
    ("C11", "break", ["C11-R2"], OP2, _NT_FRM, _NT_FRM.replace("self._intstru % key", "f\"{self._endian}{key:d}i\""), "rdop2nt: trailer format as an f-string with a hard-wired 4-byte code (64-bit keys)"),
    # the record of a data block built from a literal table of its fields
    ("C11", "neutral", [], OP2, _DIR_NS, _DIR_NS_TABLE.replace("@SIZE@", "size"), "directory: SimpleNamespace(**fields) from a literal table"),
    ("C11", "break", ["C11-R5"], OP2, _DIR_NS, _DIR_NS_TABLE.replace("@SIZE@", "size[::-1]"), "directory (namespace from a table): size stored as (cols, rows)"),
]
