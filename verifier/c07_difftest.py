"""C07 development aid (not a rule, not run by any check): differential test of the symbolic interpreter of c07_interp.py against CPython.

Pure-Python snippets (integers, strings, tuples, lists, dicts, iterators, generators, closures, classes, exceptions -- no pyyeti, no numpy)
are executed by CPython and evaluated by `Interp` from a scratch module; the two results must agree exactly, or the interpreter must
answer Unknown (never a different value).  Run:  /venv/bin/python -m verifier.c07_difftest   (from /verif)"""
from __future__ import annotations

import os
import shutil
import sys
import tempfile
from fractions import Fraction

SNIPS = r'''

def t1():
    it = iter(zip((1, 2, 3), (4, 5, 6)))
    a, b = next(it)
    tot = a * b
    for x, y in it:
        tot = tot + x * y
    return tot
def t2():
    xs = []
    for k in range(5):
        if k % 2:
            continue
        xs.append(k * k)
    ys = xs
    ys.append(100)
    return (len(xs), sum(xs), xs[-1], xs.pop(0), xs)
def t3():
    def gen(n):
        k = 0
        while k < n:
            yield k
            k += 1
        yield 99
    g = gen(3)
    first = next(g)
    rest = list(g)
    return first, rest, next(g, -1)
def t4():
    log = []
    def f(x):
        log.append(x)
        return x > 2
    r = any(f(x) for x in (1, 2, 3, 4, 5))
    return r, log
def t5():
    count = 0
    def bump(k=2):
        nonlocal count
        count += k
        return count
    bump()
    bump(5)
    return count, bump()
def t6():
    fs = []
    for c in (1, 2, 3):
        fs.append(lambda x, c=c: c * x)
    gs = [lambda x: c * x for c in (1, 2, 3)]
    return [f(10) for f in fs], [g(10) for g in gs]
def t7():
    d = {}
    for k, v in enumerate("abc", start=1):
        d[v] = k
    d.setdefault("z", 26)
    d.update(q=7)
    out = []
    try:
        out.append(d["nope"])
    except KeyError:
        out.append(-1)
    finally:
        out.append(len(d))
    return out, d.get("a"), d.pop("b"), sorted(d.values())
def t8():
    res = []
    for n in (2, 3, 4, 9):
        for k in range(2, n):
            if n % k == 0:
                res.append((n, k))
                break
        else:
            res.append((n, 0))
    return res
def t9():
    first, *mid, last = [1, 2, 3, 4, 5]
    (a, b), c = (1, 2), 3
    a, b = b, a
    return first, mid, last, a, b, c
def t10():
    import itertools, functools, operator
    a = list(itertools.accumulate([1, 2, 3, 4]))
    b = list(itertools.chain([1], (2, 3), [4]))
    c = functools.reduce(operator.mul, [1, 2, 3, 4], 1)
    d = list(itertools.islice(itertools.count(5, 2), 3))
    e = list(itertools.takewhile(lambda x: x < 3, [1, 2, 3, 1]))
    f = list(itertools.starmap(operator.add, [(1, 2), (3, 4)]))
    g = list(itertools.zip_longest([1, 2], [3], fillvalue=0))
    h = list(itertools.product((1, 2), (3, 4)))
    return a, b, c, d, e, f, g, h
def t11():
    n = 0
    out = []
    while True:
        n += 1
        if n == 2:
            continue
        if n > 4:
            break
        out.append(n)
    while (m := n - 1) > 3:
        n = m
        out.append(m)
    return out, n
def t12():
    def dec(f):
        def wrapper(*a, **k):
            return 2 * f(*a, **k)
        return wrapper
    @dec
    def g(x, y=1):
        return x + y
    return g(3), g(3, y=4)
def t13():
    x = [1, 2, 3]
    y = x
    y += [4]
    t = (1, 2)
    u = t
    u += (3,)
    x[1] = 20
    x[0] += 5
    return x, y, t, u, x is y
def t14():
    match (3, "foh"):
        case (0, _):
            r = "a"
        case (3, "zoh" | "foh" as m):
            r = m
        case _:
            r = "z"
    return r
def t15():
    class C:
        K = 3
        def __init__(self, v):
            self.v = v
        def __call__(self, x):
            return self.v * x + self.K
        def __iter__(self):
            return iter((self.v, self.K))
        def __len__(self):
            return 2
        def __getitem__(self, i):
            return (self.v, self.K)[i]
    return 0
def t16():
    g = (k * k for k in range(4))
    a = next(g)
    b = sum(g)
    c = sum(g)
    z = zip([1, 2, 3], [4, 5, 6])
    l1 = list(z)
    l2 = list(z)
    m = map(lambda v: v + 1, [1, 2])
    return a, b, c, l1, l2, tuple(m), tuple(m)
def t17():
    out = []
    def f():
        try:
            out.append(1)
            return 10
        finally:
            out.append(2)
    r = f()
    try:
        try:
            raise ValueError("x")
        except KeyError:
            out.append(3)
        finally:
            out.append(4)
    except ValueError:
        out.append(5)
    return r, out
def t18():
    s = {3, 5, 3}
    return 3 in s, 4 in s, len(s), "pade%d_i" % 7, f"pade{9}", "a-b".split("-"), "x".join(["1", "2"]), "abc".startswith("ab")
def t19():
    x = 5
    def outer():
        x = 1
        def inner():
            return x + 1
        x = 10
        return inner()
    return outer(), x
def t20():
    tot = 0
    for i, (a, b) in enumerate(zip(range(3), reversed(range(3)))):
        tot += i * a - b
    q, r = divmod(17, 5)
    return tot, q, r, min(3, 1, 2), max([4, 9, 2]), abs(-3), int(7 / 2), 7 // 2, 2 ** 10, -7 % 3, round(2.5), round(3.5), bool(0), int(True) + 1
def t21():
    lst = [3, 1, 2]
    lst.sort()
    lst.reverse()
    lst.insert(1, 9)
    lst.extend(k for k in (7, 8))
    del lst[0]
    a = lst.index(7)
    b = lst.count(9)
    c = lst[::2]
    lst.remove(8)
    return lst, a, b, c, [0] * 3, (1,) * 2, [1, 2] + [3]
def t22():
    import collections
    P = collections.namedtuple("P", "x y")
    p = P(1, y=2)
    x, y = p
    q = p._replace(x=5)
    dq = collections.deque([1, 2])
    dq.appendleft(0)
    dq.append(3)
    return p.x + p.y, x, y, q.x, q[1], dq.popleft(), dq.pop(), len(dq)
def t23():
    def g():
        x = yield 1
        yield 2
        return 5
    def h():
        r = yield from g()
        yield r
    return list(h())
def t24():
    acc = []
    def rec(n):
        if n == 0:
            return 0
        acc.append(n)
        return n + rec(n - 1)
    return rec(4), acc

import dataclasses, typing, contextlib, functools, itertools, operator
_COUNT = 0
_TABLE = {k: k * k for k in range(4)}
class Base:
    SCALE = 2
    def __init__(self, v):
        self.v = v
        self._cache = None
    @property
    def twice(self):
        if self._cache is None:
            self._cache = self.SCALE * self.v
        return self._cache
    @classmethod
    def make(cls, v):
        return cls(v + 1)
    @staticmethod
    def helper(a, b=3):
        return a * b
    def describe(self):
        return ("base", self.v)
class Mixin:
    EXTRA = 7
    def extra(self):
        return self.EXTRA + self.v
class Child(Mixin, Base):
    SCALE = 5
    def __init__(self, v, w=1):
        super().__init__(v)
        self.w = w
    def describe(self):
        kind, v = super().describe()
        return ("child", kind, v, self.w)
@dataclasses.dataclass
class Rec:
    a: int
    b: int = 4
    tag: typing.ClassVar[str] = "r"
    def total(self):
        return self.a + self.b
class Pt(typing.NamedTuple):
    x: int
    y: int = 0
    def norm1(self):
        return abs(self.x) + abs(self.y)
def t30():
    c = Child.make(2)
    return c.twice, c.twice, c.extra(), c.describe(), Child.helper(2), c.helper(2, b=1), type(c).SCALE, isinstance(c, Child), Base(1).describe()
def t31():
    r = Rec(1)
    r2 = Rec(b=2, a=3)
    r.a += 10
    p = Pt(3)
    q = Pt._make([1, -2])
    return r.total(), r2.total(), p.x, p.y, q.norm1(), tuple(q), p._fields, len(q), q == (1, -2)
def t32():
    global _COUNT
    _COUNT += 1
    _COUNT += 1
    return _COUNT, _TABLE[3], sorted(_TABLE, reverse=True), [k for k, v in _TABLE.items() if v > 1]
def t33():
    log = []
    @contextlib.contextmanager
    def cm(tag):
        log.append("in " + tag)
        yield tag.upper()
        log.append("out " + tag)
    def f():
        with cm("a") as a, cm("b") as b:
            log.append(a + b)
            return 1
    r = f()
    with contextlib.suppress(KeyError, IndexError):
        log.append("x")
        [][1]
        log.append("never")
    return r, log
def t34():
    def pick(order=None, table={3: "a", 5: "b"}):
        order = order or 3
        name = table.get(order, "z") if order is not None else "n"
        return name if 0 < order <= 5 else "big"
    return pick(), pick(5), pick(7), pick(order=4)
def t35():
    out = []
    for m, theta in ((3, 1), (5, 2), (7, 3)):
        if theta < 2:
            continue
        out.append(m)
    else:
        out.append(-1)
    res = next((m for m in (3, 5, 7) if m > 4), None)
    res2 = next((m for m in (3, 5, 7) if m > 9), 13)
    return out, res, res2, [y for x in (1, 2, 3) if (y := x * 2) > 2]
def t36():
    data = [("b", 2), ("a", 1)]
    d = dict(data)
    keys = list(d)
    items = [f"{k}={v}" for k, v in d.items()]
    e = {**d, "c": 3}
    t = tuple(e.values())
    s = "%s-%d" % ("p", 3) + "{}{:d}".format("q", 4)
    return keys, items, t, s, "a" in d, "z" not in d, len(e)
def t37():
    fns = {"add": operator.add, "mul": operator.mul}
    p = functools.partial(fns["mul"], 3)
    att = operator.attrgetter("v")
    ig = operator.itemgetter(1)
    return fns["add"](1, 2), p(4), att(Base(9)), ig((5, 6, 7)), list(map(p, (1, 2))), list(filter(None, (0, 1, 2)))
def t38():
    # iterator protocol objects
    class Countdown:
        def __init__(self, n):
            self.n = n
        def __iter__(self):
            n = self.n
            while n > 0:
                yield n
                n -= 1
    c = Countdown(3)
    return list(c), sum(c), [a * b for a, b in zip(c, c)], max(c)
def t39():
    xs = [1, 2, 3, 4, 5, 6]
    return xs[1:4], xs[::-1][:2], xs[-2:], xs[:-4:-1], tuple(xs)[slice(1, None, 2)], xs[len(xs) // 2]
def t40():
    a = b = [0]
    b.append(1)
    c = list(a)
    c.append(2)
    x = y = 5
    y += 1
    def mod(lst, val):
        lst.append(val)
        lst = [99]
        return lst
    r = mod(a, 7)
    return a, b, c, x, y, r

class Lazy:
    def __init__(self, a, b):
        self.a, self.b = a, b
    def __set_name__(self, owner, name):
        self.cache = "_" + name
    def __get__(self, obj, objtype=None):
        if obj is None:
            return self
        if getattr(obj, self.cache) is None:
            setattr(obj, self.cache, getattr(obj, self.a) * getattr(obj, self.b))
        return getattr(obj, self.cache)
class Pw:
    def __init__(self, v):
        self.A1 = v
        self._A2 = None
        self._A3 = None
    def _one(self):
        return ("one", self.A1)
    def _two(self):
        return ("two", self.A2)
    A2 = Lazy("A1", "A1")
    A3 = Lazy("A2", "A1")
    TABLE = (("a", _one), ("b", _two))
    def pick(self, key):
        for name, fn in self.TABLE:
            if key == name:
                return fn(self)
        return None
def t50():
    p = Pw(3)
    return p.A3, p.A2, p._A2, p.pick("b"), p.pick("a"), p.pick("z")
def t51():
    b, p, q = (1, 2), (3, 4), (5, 6)
    out = []
    for c in (b, p, q):
        if c is b:
            out.append(("first", c[0]))
            out.append(("again", c[1]))
        else:
            out.append(("other", c[0] + c[1]))
    k = []
    for i in range(5, 0, -1):
        k.append(i)
    for i in range(3, 9, 1):
        k.append(i)
    return out, k, [] is [], (b is b), 0.5 ** 2, 4 ** -1
'''


def _conv(v):
    if isinstance(v, bool) or v is None or isinstance(v, str):
        return v
    if isinstance(v, (int, float)):
        return Fraction(v)
    if isinstance(v, (tuple, list)):
        return tuple(_conv(x) for x in v)
    return repr(v)


def _back(v):
    from . import e2_formula as F
    if isinstance(v, F.Rat):
        return v.const_value() if v.is_const() else repr(v)
    if isinstance(v, (tuple, list)):
        return tuple(_back(x) for x in v)
    return v if (isinstance(v, (bool, str)) or v is None) else repr(v)


def main():
    from . import core, c07_interp as I
    ns = {}
    exec(SNIPS, ns)
    root = tempfile.mkdtemp(prefix="c07_difftest_")
    try:
        os.makedirs(os.path.join(root, "pyyeti"))
        with open(os.path.join(root, "pyyeti", "snips.py"), "w") as f:
            f.write(SNIPS)
        ctx = core.Ctx("C07", "quick", 0, root)
        wrong = unknown = 0
        names = sorted((n for n in ns if n.startswith("t") and n[1:].isdigit()), key=lambda s: int(s[1:]))
        for name in names:
            want = _conv(ns[name]())
            it = I.Interp(ctx, "pyyeti/snips.py")
            try:
                got = _back(it.call(name, []))
            except Exception as e:  # noqa
                got = f"Unknown({type(e).__name__}: {e})"
            if got == want:
                continue
            if "Unknown(" in repr(got) or "call:" in repr(got):
                unknown += 1
                print(f"unknown {name}: {got!r}"[:300])
            else:
                wrong += 1
                print(f"WRONG   {name}:\n   CPython {want!r}\n   Interp  {got!r}")
        print(f"{len(names)} snippets: {wrong} wrong values, {unknown} not followed")
        return 1 if wrong else 0
    finally:
        shutil.rmtree(root, ignore_errors=True)


if __name__ == "__main__":
    sys.exit(main())
