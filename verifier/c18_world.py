"""Finite-world evaluation of small index utilities (helper of verifier/c18.py, rule C18-R6).

`ArrayFolder` is the constant folder of verifier/c18_fold.py (a white-listed static evaluation of the parsed source: nothing of the package
is imported or run) extended by a *model* of one-dimensional numpy arrays of bools / integers / floats: `Arr`.  The model covers the
operations index utilities are written with - construction (ones / zeros / full / arange / array / asarray), integer, slice, fancy and
boolean-mask indexing for loads and stores (negative indices count from the end, an index outside -n..n-1 is an IndexError, a mask of the
wrong length is an IndexError), elementwise comparison and logic, nonzero / flatnonzero / where, the set functions on *values* (setdiff1d,
isin, in1d, intersect1d, union1d, unique), delete / take / put, sort, concatenate, reductions.  Everything else is `Unsupported`
(-> not decided, never a verdict).  Exceptions numpy itself would raise are `NumpyRaise` (a FoldRaise): the rule trusts only these and the
`raise` statements of the analysed source as "the function raises"; any other failure inside the folder is "not decided".

Where numpy and the model could differ silently, the model refuses instead: arithmetic between boolean arrays, `~` on a Python bool taken
from an array, stores through a view (slices / ravel are marked as views), uninitialised memory (np.empty) that is read, unsigned
dtypes, sorting with ties by argsort, arrays with more than one axis."""
from __future__ import annotations

import ast
import operator

from .core import Unsupported
from .c18_fold import Folder, FoldRaise, _Ext, _plain, _CMP


class NumpyRaise(FoldRaise):
    """an exception numpy raises for the modelled operation (class name in .exc)"""

    def __init__(self, exc, msg, node=None):
        super().__init__(f"{exc}: {msg}", node, exc)


class _Uninit:
    def __repr__(self):
        return "<uninitialised>"


UNINIT = _Uninit()
_RANK = {"b": 0, "i": 1, "f": 2}
_PY = {"b": bool, "i": int, "f": float}


class DType:
    """a numpy dtype / scalar type, reduced to its kind (b, i, f)"""

    def __init__(self, kind):
        self.kind = kind

    def __eq__(self, other):
        k = _kind_of_spec(other, strict=False)
        return k is not None and k == self.kind

    def __ne__(self, other):
        return not self.__eq__(other)

    def __hash__(self):
        return hash(("dtype", self.kind))

    def __repr__(self):
        return {"b": "bool", "i": "int64", "f": "float64"}[self.kind]


_STR_KINDS = {"bool": "b", "?": "b", "bool_": "b", "b1": "b", "int": "i", "int64": "i", "i8": "i", "intp": "i", "int_": "i", "int32": "i", "i4": "i",
              "i": "i", "l": "i", "q": "i", "p": "i", "float": "f", "float64": "f", "f8": "f", "d": "f", "double": "f"}


def _kind_of_spec(spec, strict=True):
    if isinstance(spec, DType):
        return spec.kind
    if spec is bool:
        return "b"
    if spec is int:
        return "i"
    if spec is float:
        return "f"
    if isinstance(spec, str) and spec.lstrip("<=|") in _STR_KINDS:
        return _STR_KINDS[spec.lstrip("<=|")]
    if strict:
        raise Unsupported(f"world: dtype {spec!r} is outside the modelled subset")
    return None


class Arr:
    """a one-dimensional numpy array: `items` (Python bools / ints / floats) and `kind`"""

    def __init__(self, items, kind, view=False, base=None, pos=None):
        self._items, self.kind, self.view = (None if base is not None else list(items)), kind, view or base is not None
        self.base, self.pos = base, pos

    @property
    def items(self):
        """the elements; a view (slice, ravel, reshape, flip of another array) reads its base when asked, so a store into the base made after
        the view was taken is seen.  Stores *through* a view are refused by every mutating operation (`view` is set)."""
        if self.base is not None:
            b = self.base.items
            return [b[p] for p in self.pos]
        return self._items

    def vals(self):
        if any(x is UNINIT for x in self.items):
            raise Unsupported("world: uninitialised array memory is read")
        return self.items

    def __len__(self):
        return len(self.items)

    def __iter__(self):
        return iter(list(self.vals()))

    def __bool__(self):
        return truth(self)

    def __repr__(self):
        return f"array({self.items}, {DType(self.kind)!r})"

    # the operator module / builtins reach the same model as the syntax
    def __getitem__(self, ix):
        return getitem(self, ix)

    def __setitem__(self, ix, value):
        setitem(self, ix, value)

    def __invert__(self):
        return invert(self)

    def __and__(self, other):
        return binop(ast.BitAnd, self, other)

    def __or__(self, other):
        return binop(ast.BitOr, self, other)

    def __xor__(self, other):
        return binop(ast.BitXor, self, other)

    __rand__, __ror__, __rxor__ = __and__, __or__, __xor__


def _whole_view(a):
    return Arr(None, a.kind, base=a, pos=list(range(len(a))))


def _conv(x, kind):
    if x is UNINIT:
        return x
    if kind == "i" and isinstance(x, float) and x != x:
        raise Unsupported("world: nan stored into an integer array")
    return _PY[kind](x)


def _scalar_kind(x):
    if isinstance(x, bool):
        return "b"
    if isinstance(x, int):
        return "i"
    if isinstance(x, float):
        return "f"
    return None


def as_arr(x, kind=None, what="array argument"):
    """np.asarray on the modelled subset (the same object for an array of the wanted kind)"""
    if isinstance(x, Arr):
        if kind is None or kind == x.kind:
            return x
        return Arr([_conv(v, kind) for v in x.vals()], kind)
    if isinstance(x, range):
        x = list(x)
    if isinstance(x, (list, tuple)):
        if any(isinstance(v, Arr) and len(v) == 1 for v in x) or any(_scalar_kind(v) is None for v in x):
            raise Unsupported(f"world: {what}: a sequence of non-scalars")
        k = kind or (max((_scalar_kind(v) for v in x), key=_RANK.get) if x else "f")
        return Arr([_conv(v, k) for v in x], k)
    if isinstance(x, (set, frozenset, dict)) or type(x).__name__ in ("generator", "map", "filter", "zip", "list_iterator"):
        raise Unsupported(f"world: {what}: numpy makes a 0-d object array of a {type(x).__name__}")
    raise Unsupported(f"world: {what}: {type(x).__name__} (only 1-d arrays and sequences of scalars are modelled)")


def _shape(shape):
    if isinstance(shape, (tuple, list)) and len(shape) == 1:
        shape = shape[0]
    if isinstance(shape, bool) or not isinstance(shape, int):
        raise Unsupported("world: only one-dimensional shapes are modelled")
    if shape < 0:
        raise NumpyRaise("ValueError", "negative dimensions are not allowed")
    if shape > 4096:
        raise Unsupported("world: array too long")
    return shape


# ----------------------------------------------------------------------------------------------------------------------- indexing
def _resolve(arr, ix):
    """positions of arr selected by the index ix -> (positions, scalar?)"""
    L = len(arr)
    if isinstance(ix, tuple):
        if len(ix) == 1:
            return _resolve(arr, ix[0])
        raise Unsupported("world: index with several entries / None / Ellipsis")
    if isinstance(ix, bool):
        raise Unsupported("world: a scalar bool as an index")
    if isinstance(ix, int):
        if not -L <= ix < L:
            raise NumpyRaise("IndexError", f"index {ix} is out of bounds for axis 0 with size {L}")
        return [ix % L], True
    if isinstance(ix, slice):
        if any(v is not None and (isinstance(v, bool) or not isinstance(v, int)) for v in (ix.start, ix.stop, ix.step)):
            raise Unsupported("world: slice bounds that are not plain integers")
        if ix.step == 0:
            raise NumpyRaise("ValueError", "slice step cannot be zero")
        return list(range(L))[ix], False
    if isinstance(ix, range):
        ix = list(ix)
    if isinstance(ix, list):
        if not ix:
            return [], False
        ix = as_arr(ix, what="index")
    if isinstance(ix, Arr):
        v = ix.vals()
        if ix.kind == "b":
            if len(v) == 0 and L == 1:
                raise Unsupported("world: an empty mask on an axis of length 1 (numpy accepts it)")
            if len(v) != L:
                raise NumpyRaise("IndexError", f"boolean index did not match indexed array along axis 0; size of axis is {L} but size of boolean index is {len(v)}")
            return [i for i, t in enumerate(v) if t], False
        if ix.kind == "i":
            out = []
            for k in v:
                if not -L <= k < L:
                    raise NumpyRaise("IndexError", f"index {k} is out of bounds for axis 0 with size {L}")
                out.append(k % L)
            return out, False
        raise NumpyRaise("IndexError", "arrays used as indices must be of integer (or boolean) type")
    if isinstance(ix, float):
        raise NumpyRaise("IndexError", "only integers, slices, ellipsis, None and integer or boolean arrays are valid indices")
    raise Unsupported(f"world: index of type {type(ix).__name__}")


def getitem(arr, ix):
    pos, scalar = _resolve(arr, ix)
    v = arr.vals() if pos else arr.items
    if scalar:
        return v[pos[0]]
    if isinstance(ix, slice) or (isinstance(ix, tuple) and isinstance(ix[0], slice)):
        return Arr(None, arr.kind, base=arr, pos=pos)
    return Arr([v[p] for p in pos], arr.kind)


def setitem(arr, ix, value):
    if arr.view:
        raise Unsupported("world: store through a view of an array")
    pos, scalar = _resolve(arr, ix)
    if isinstance(value, (Arr, list, tuple, range)):
        val = as_arr(value, what="stored value").vals()
        if scalar:
            if len(val) != 1:
                raise NumpyRaise("ValueError", "setting an array element with a sequence")
            val = [val[0]]
        elif len(val) == 1:
            val = val * len(pos)
        elif len(val) != len(pos):
            raise NumpyRaise("ValueError", f"shape mismatch: value array of shape ({len(val)},) could not be broadcast to indexing result of shape ({len(pos)},)")
    elif _scalar_kind(value) is not None:
        val = [value] * len(pos)
    else:
        raise Unsupported(f"world: store of a {type(value).__name__} into an array")
    for p, x in zip(pos, val):
        arr.items[p] = _conv(x, arr.kind)


# ----------------------------------------------------------------------------------------------------------------------- operators
_LOGIC = {ast.BitAnd: operator.and_, ast.BitOr: operator.or_, ast.BitXor: operator.xor}
_ARITH = {ast.Add: operator.add, ast.Sub: operator.sub, ast.Mult: operator.mul, ast.FloorDiv: operator.floordiv, ast.Mod: operator.mod}
_CMPS = {ast.Eq: operator.eq, ast.NotEq: operator.ne, ast.Lt: operator.lt, ast.LtE: operator.le, ast.Gt: operator.gt, ast.GtE: operator.ge}


def _pair(a, b):
    """broadcast two operands (arrays / scalars) -> (values a, values b, kind a, kind b, length)"""
    A = a if isinstance(a, Arr) else None
    B = b if isinstance(b, Arr) else None
    for x, X in ((a, A), (b, B)):
        if X is None and _scalar_kind(x) is None:
            if isinstance(x, (list, tuple, range)):
                raise Unsupported("world: operator between an array and a sequence")
            raise Unsupported(f"world: operator between an array and a {type(x).__name__}")
    n = max(len(X) for X in (A, B) if X is not None)
    out = []
    for x, X in ((a, A), (b, B)):
        if X is None:
            out.append(([x] * n, _scalar_kind(x)))
        elif len(X) == n:
            out.append((X.vals(), X.kind))
        elif len(X) == 1:
            out.append((X.vals() * n, X.kind))
        else:
            raise NumpyRaise("ValueError", f"operands could not be broadcast together with shapes ({len(A)},) ({len(B)},)")
    return out[0][0], out[1][0], out[0][1], out[1][1], n


def binop(op, a, b):
    t = op if isinstance(op, type) else type(op)
    va, vb, ka, kb, _ = _pair(a, b)
    k = max(ka, kb, key=_RANK.get)
    if t in _LOGIC:
        if k == "f":
            raise NumpyRaise("TypeError", "ufunc not supported for the input types (bitwise operator on floats)")
        return Arr([_LOGIC[t](x, y) for x, y in zip(va, vb)], k)
    if t in _ARITH:
        if k == "b":
            raise Unsupported("world: arithmetic between booleans (numpy and Python differ)")
        if t in (ast.FloorDiv, ast.Mod) and any(y == 0 for y in vb):
            raise Unsupported("world: division by zero in an array")
        return Arr([_PY[k](_ARITH[t](x, y)) for x, y in zip(va, vb)], k)
    raise Unsupported(f"world: array operator {t.__name__}")


def compare(op, a, b):
    t = op if isinstance(op, type) else type(op)
    if t not in _CMPS:
        raise Unsupported(f"world: array comparison {t.__name__}")
    va, vb, _, _, _ = _pair(a, b)
    return Arr([bool(_CMPS[t](x, y)) for x, y in zip(va, vb)], "b")


def invert(a):
    if a.kind == "b":
        return Arr([not x for x in a.vals()], "b")
    if a.kind == "i":
        return Arr([~x for x in a.vals()], "i")
    raise NumpyRaise("TypeError", "ufunc 'invert' not supported for the input types")


def truth(a):
    v = a.vals()
    if len(v) == 1:
        return bool(v[0])
    if not v:
        raise Unsupported("world: truth value of an empty array")
    raise NumpyRaise("ValueError", "The truth value of an array with more than one element is ambiguous. Use a.any() or a.all()")


# ----------------------------------------------------------------------------------------------------------------------- library
def _no_kw(kw, allowed=()):
    extra = [k for k in kw if k not in allowed]
    if extra:
        raise Unsupported(f"world: keyword {extra[0]} is outside the modelled subset")


def _filled(value):
    def make(shape, dtype=float, **kw):
        _no_kw(kw)
        k = _kind_of_spec(dtype)
        return Arr([_conv(value, k)] * _shape(shape), k)
    return make


def _np_full(shape, fill_value, dtype=None, **kw):
    _no_kw(kw)
    if _scalar_kind(fill_value) is None:
        raise Unsupported("world: np.full with a non-scalar")
    k = _kind_of_spec(dtype) if dtype is not None else _scalar_kind(fill_value)
    return Arr([_conv(fill_value, k)] * _shape(shape), k)


def _np_empty(shape, dtype=float, **kw):
    _no_kw(kw)
    return Arr([UNINIT] * _shape(shape), _kind_of_spec(dtype))


def _like(value):
    def make(a, dtype=None, **kw):
        _no_kw(kw)
        a = as_arr(a)
        k = _kind_of_spec(dtype) if dtype is not None else a.kind
        return Arr([UNINIT if value is UNINIT else _conv(value, k)] * len(a), k)
    return make


def _np_full_like(a, fill_value, dtype=None, **kw):
    _no_kw(kw)
    a = as_arr(a)
    if _scalar_kind(fill_value) is None:
        raise Unsupported("world: np.full_like with a non-scalar")
    k = _kind_of_spec(dtype) if dtype is not None else a.kind
    return Arr([_conv(fill_value, k)] * len(a), k)


def _np_arange(*args, dtype=None, **kw):
    _no_kw(kw)
    if not 1 <= len(args) <= 3 or any(isinstance(a, bool) or not isinstance(a, int) for a in args):
        raise Unsupported("world: np.arange of non-integers")
    if len(args) == 3 and args[2] == 0:
        raise NumpyRaise("ZeroDivisionError", "division by zero")
    r = range(*args)
    if len(r) > 4096:
        raise Unsupported("world: array too long")
    k = _kind_of_spec(dtype) if dtype is not None else "i"
    return Arr([_conv(x, k) for x in r], k)


def _np_array(x, dtype=None, copy=True, **kw):
    _no_kw(kw)
    k = _kind_of_spec(dtype) if dtype is not None else None
    a = as_arr(x, k, "np.array")
    return Arr(a.items, a.kind) if (a is x and copy is not False) else a


def _np_asarray(x, dtype=None, **kw):
    _no_kw(kw)
    return as_arr(x, _kind_of_spec(dtype) if dtype is not None else None, "np.asarray")


def _np_atleast_1d(x):
    if _scalar_kind(x) is not None:
        return Arr([x], _scalar_kind(x))
    return as_arr(x, None, "np.atleast_1d")


def _positions(a):
    a = as_arr(a)
    return Arr([i for i, x in enumerate(a.vals()) if x], "i")


def _np_nonzero(a):
    return (_positions(a),)


def _np_where(c, *xy):
    if not xy:
        return (_positions(c),)
    if len(xy) != 2:
        raise NumpyRaise("ValueError", "either both or neither of x and y should be given")
    ops = [as_arr(c)] + [v if _scalar_kind(v) is not None else as_arr(v) for v in xy]
    n = max(len(v) for v in ops if isinstance(v, Arr))
    cols, kinds = [], []
    for v in ops:
        if not isinstance(v, Arr):
            cols.append([v] * n)
            kinds.append(_scalar_kind(v))
        elif len(v) == n:
            cols.append(v.vals())
            kinds.append(v.kind)
        elif len(v) == 1:
            cols.append(v.vals() * n)
            kinds.append(v.kind)
        else:
            raise NumpyRaise("ValueError", "operands could not be broadcast together")
    k = max(kinds[1:], key=_RANK.get)
    return Arr([_PY[k](p if t else q) for t, p, q in zip(*cols)], k)


def _uniq(vals):
    out = []
    for x in sorted(vals):
        if not out or out[-1] != x:
            out.append(x)
    return out


def _np_unique(a, **kw):
    _no_kw(kw)
    a = as_arr(a)
    return Arr(_uniq(a.vals()), a.kind)


def _member_mask(a, b, invert=False):
    vb = [b] if _scalar_kind(b) is not None else list(as_arr(b).vals())
    return [(any(x == y for y in vb)) != bool(invert) for x in a.vals()]


def _np_isin(a, b, assume_unique=False, invert=False, **kw):
    _no_kw(kw, ("kind",))
    if _scalar_kind(a) is not None:
        raise Unsupported("world: np.isin of a scalar")
    a = as_arr(a)
    return Arr(_member_mask(a, b, invert), "b")


def _np_setdiff1d(a, b, assume_unique=False):
    a, b = as_arr(a), as_arr(b)
    keep = [x for x, t in zip(a.vals(), _member_mask(a, b, invert=True)) if t]
    if assume_unique:
        if len(set(a.vals())) != len(a) or len(set(b.vals())) != len(b):
            raise Unsupported("world: setdiff1d(assume_unique=True) on inputs with repeats")
        return Arr(keep, a.kind)
    return Arr(_uniq(keep), a.kind)


def _np_intersect1d(a, b, assume_unique=False, **kw):
    _no_kw(kw)
    a, b = as_arr(a), as_arr(b)
    k = max(a.kind, b.kind, key=_RANK.get)
    vb = list(b.vals())
    return Arr([_PY[k](x) for x in _uniq(a.vals()) if any(x == y for y in vb)], k)


def _np_union1d(a, b):
    a, b = as_arr(a), as_arr(b)
    k = max(a.kind, b.kind, key=_RANK.get)
    return Arr([_PY[k](x) for x in _uniq(list(a.vals()) + list(b.vals()))], k)


def _np_setxor1d(a, b, assume_unique=False):
    a, b = as_arr(a), as_arr(b)
    k = max(a.kind, b.kind, key=_RANK.get)
    ua, ub = _uniq(a.vals()), _uniq(b.vals())
    return Arr([_PY[k](x) for x in _uniq([x for x in ua if not any(x == y for y in ub)] + [y for y in ub if not any(x == y for x in ua)])], k)


def _np_delete(arr, obj, axis=None):
    if axis not in (None, 0, -1):
        raise Unsupported("world: np.delete along another axis")
    arr = as_arr(arr)
    L = len(arr)
    if isinstance(obj, bool):
        raise Unsupported("world: np.delete with a scalar bool")
    if isinstance(obj, (int, slice)):
        gone, _ = _resolve(arr, obj)
    else:
        o = as_arr(obj if not isinstance(obj, list) or obj else Arr([], "i"), what="np.delete object")
        if o.kind == "b":
            if len(o) != L:
                raise NumpyRaise("ValueError", f"boolean array argument obj to delete must be one dimensional and match the axis length of {L}")
            gone = [i for i, t in enumerate(o.vals()) if t]
        elif o.kind == "i":
            gone, _ = _resolve(arr, o)
        elif len(o) == 0:
            gone = []
        else:
            raise NumpyRaise("IndexError", "arrays used as indices must be of integer (or boolean) type")
    gone = set(gone)
    return Arr([x for i, x in enumerate(arr.vals()) if i not in gone], arr.kind)


def _np_take(a, indices, axis=None, mode="raise", **kw):
    _no_kw(kw)
    if mode != "raise" or axis not in (None, 0, -1):
        raise Unsupported("world: np.take mode / axis")
    a = as_arr(a)
    if isinstance(indices, bool):
        raise Unsupported("world: np.take with a scalar bool")
    if isinstance(indices, int):
        return getitem(a, indices)
    ix = as_arr(indices, what="np.take indices")
    if ix.kind == "f" and len(ix):
        raise NumpyRaise("TypeError", "Cannot cast array data from dtype('float64') to dtype('int64') according to the rule 'safe'")
    return getitem(a, Arr([int(x) for x in ix.vals()], "i"))       # a mask is read as the integers 0 / 1


def _np_put(a, ind, v, mode="raise"):
    if mode != "raise":
        raise Unsupported("world: np.put mode")
    if not isinstance(a, Arr):
        raise NumpyRaise("TypeError", "argument 1 must be numpy.ndarray")
    ix = as_arr([ind] if _scalar_kind(ind) is not None else ind, what="np.put indices")
    if ix.kind == "f" and len(ix):
        raise NumpyRaise("TypeError", "Cannot cast array data from dtype('float64') to dtype('int64') according to the rule 'safe'")
    ix = Arr([int(x) for x in ix.vals()], "i")                      # a mask is read as the integers 0 / 1
    val = as_arr([v] if _scalar_kind(v) is not None else v, what="np.put values").vals()
    if len(ix) and not val:
        raise Unsupported("world: np.put without values")
    pos, _ = _resolve(a, ix)
    if a.view:
        raise Unsupported("world: store through a view of an array")
    for j, p in enumerate(pos):
        a.items[p] = _conv(val[j % len(val)], a.kind)
    return None


def _np_sort(a, axis=-1, **kw):
    _no_kw(kw, ("kind",))
    a = as_arr(a)
    return Arr(sorted(a.vals()), a.kind)


def _np_argsort(a, axis=-1, kind=None, **kw):
    _no_kw(kw)
    a = as_arr(a)
    v = a.vals()
    if len(set(v)) != len(v) and kind not in ("stable", "mergesort"):
        raise Unsupported("world: argsort with ties and an unstable sort")
    return Arr(sorted(range(len(v)), key=lambda i: v[i]), "i")


def _np_concatenate(seq, axis=0, **kw):
    _no_kw(kw)
    if not isinstance(seq, (list, tuple)) or not seq:
        raise Unsupported("world: np.concatenate of " + type(seq).__name__)
    parts = [as_arr(x if _scalar_kind(x) is None else None, what="np.concatenate part") for x in seq]
    k = max((p.kind for p in parts), key=_RANK.get)
    return Arr([_PY[k](x) for p in parts for x in p.vals()], k)


def _np_hstack(seq):
    if not isinstance(seq, (list, tuple)) or not seq:
        raise Unsupported("world: np.hstack of " + type(seq).__name__)
    return _np_concatenate([_np_atleast_1d(x) for x in seq])


def _np_append(a, b, axis=None):
    return _np_concatenate([_np_atleast_1d(a), _np_atleast_1d(b)])


def _reduce(name):
    def red(a, axis=None, **kw):
        _no_kw(kw)
        if axis not in (None, 0, -1):
            raise NumpyRaise("AxisError", "axis is out of bounds for array of dimension 1")
        v = as_arr(a).vals()
        if name == "any":
            return any(bool(x) for x in v)
        if name == "all":
            return all(bool(x) for x in v)
        if name == "count_nonzero":
            return sum(1 for x in v if x)
        if name == "sum":
            return sum(int(x) if isinstance(x, bool) else x for x in v) if as_arr(a).kind != "f" else float(sum(v))
        if not v:
            raise NumpyRaise("ValueError", "zero-size array to reduction operation which has no identity")
        return max(v) if name == "max" else min(v)
    return red


def _unary(f, kinds="bif", out=None):
    def u(a, **kw):
        _no_kw(kw)
        if _scalar_kind(a) is not None:
            raise Unsupported("world: numpy ufunc on a scalar")
        a = as_arr(a)
        if a.kind not in kinds:
            raise Unsupported("world: ufunc on this dtype")
        return Arr([f(x) for x in a.vals()], out or a.kind)
    return u


def _np_invert(a, **kw):
    _no_kw(kw)
    if _scalar_kind(a) is not None:
        raise Unsupported("world: numpy ufunc on a scalar")
    return invert(as_arr(a))


def _bin_fn(op, logical=False, cmp=False):
    def f(a, b, **kw):
        _no_kw(kw)
        a = a if _scalar_kind(a) is not None else as_arr(a)
        b = b if _scalar_kind(b) is not None else as_arr(b)
        if not isinstance(a, Arr) and not isinstance(b, Arr):
            raise Unsupported("world: numpy ufunc on scalars")
        if cmp:
            return compare(op, a, b)
        if logical:
            va, vb, _, _, _ = _pair(a, b)
            return Arr([bool(_LOGIC[op](bool(x), bool(y))) for x, y in zip(va, vb)], "b")
        return binop(op, a, b)
    return f


def _np_array_equal(a, b, **kw):
    _no_kw(kw)
    a, b = as_arr(a), as_arr(b)
    return len(a) == len(b) and all(x == y for x, y in zip(a.vals(), b.vals()))


def _np_issubdtype(d, cls):
    k = _kind_of_spec(d)
    if isinstance(cls, _Abstract):
        return k in cls.kinds
    return k == _kind_of_spec(cls)


class _Abstract:
    def __init__(self, kinds):
        self.kinds = kinds


def _np_dtype(spec):
    return DType(_kind_of_spec(spec))


def _np_size(a, axis=None):
    return len(as_arr(a))


def _np_ndim(a):
    return 0 if _scalar_kind(a) is not None else (as_arr(a), 1)[1]


def _np_shape(a):
    return (len(as_arr(a)),)


def _np_cumsum(a, axis=None, **kw):
    _no_kw(kw)
    a = as_arr(a)
    k = "i" if a.kind == "b" else a.kind
    out, s = [], 0
    for x in a.vals():
        s += int(x) if isinstance(x, bool) else x
        out.append(_PY[k](s))
    return Arr(out, k)


def _np_bincount(x, weights=None, minlength=0):
    if weights is not None:
        raise Unsupported("world: np.bincount with weights")
    x = as_arr(x)
    if x.kind == "f" and len(x):
        raise NumpyRaise("TypeError", "Cannot cast array data from dtype('float64') to dtype('int64') according to the rule 'safe'")
    v = [int(t) for t in x.vals()]
    if any(t < 0 for t in v):
        raise NumpyRaise("ValueError", "'list' argument must have no negative elements")
    n = max([minlength] + [t + 1 for t in v])
    out = [0] * n
    for t in v:
        out[t] += 1
    return Arr(out, "i")


def _np_copy(a, **kw):
    _no_kw(kw)
    a = as_arr(a)
    return Arr(a.items, a.kind)


def _np_flip(a, axis=None):
    a = as_arr(a)
    return Arr(None, a.kind, base=a, pos=list(range(len(a)))[::-1])


def _np_compress(condition, a, axis=None, **kw):
    _no_kw(kw)
    c, a = as_arr(condition), as_arr(a)
    if c.kind != "b":
        raise Unsupported("world: np.compress with a condition that is not boolean")
    if len(c) > len(a):
        raise Unsupported("world: np.compress with a longer condition")
    v = a.vals()
    return Arr([v[i] for i, t in enumerate(c.vals()) if t], a.kind)


def _np_extract(condition, a):
    c, a = as_arr(condition), as_arr(a)
    if len(c) != len(a):
        raise Unsupported("world: np.extract with another length")
    v = a.vals()
    return Arr([v[i] for i, t in enumerate(c.vals()) if t], a.kind)


def _np_fromiter(it, dtype, count=-1):
    if count != -1:
        raise Unsupported("world: np.fromiter(count=)")
    k = _kind_of_spec(dtype)
    vals = list(it)
    if any(_scalar_kind(v) is None for v in vals):
        raise Unsupported("world: np.fromiter of non-scalars")
    return Arr([_conv(v, k) for v in vals], k)


def _with_out(f):
    """ufunc(..., out=array): the result is written into `out` (same length, no down-cast) and `out` is returned"""
    def g(*args, out=None, **kw):
        r = f(*args, **kw)
        if out is None:
            return r
        if isinstance(out, tuple) and len(out) == 1:
            out = out[0]
        if not isinstance(out, Arr) or not isinstance(r, Arr):
            raise Unsupported("world: out= that is not a modelled array")
        if out.view:
            raise Unsupported("world: store through a view of an array")
        if len(out) != len(r):
            raise NumpyRaise("ValueError", "non-broadcastable output operand")
        if _RANK[r.kind] > _RANK[out.kind]:
            raise NumpyRaise("TypeError", "Cannot cast ufunc output to the dtype of out=")
        out.items[:] = [_conv(x, out.kind) for x in r.vals()]
        return out
    return g


NP = {
    "ones": _filled(1), "zeros": _filled(0), "full": _np_full, "empty": _np_empty, "ones_like": _like(1), "zeros_like": _like(0),
    "empty_like": _like(UNINIT), "full_like": _np_full_like, "arange": _np_arange, "array": _np_array, "asarray": _np_asarray,
    "asanyarray": _np_asarray, "ascontiguousarray": _np_asarray, "atleast_1d": _np_atleast_1d, "nonzero": _np_nonzero, "flatnonzero": _positions,
    "where": _np_where, "unique": _np_unique, "isin": _np_isin, "in1d": _np_isin, "setdiff1d": _np_setdiff1d, "intersect1d": _np_intersect1d,
    "union1d": _np_union1d, "setxor1d": _np_setxor1d, "delete": _np_delete, "take": _np_take, "put": _np_put, "sort": _np_sort,
    "argsort": _np_argsort, "concatenate": _np_concatenate, "hstack": _np_hstack, "append": _np_append, "any": _reduce("any"),
    "all": _reduce("all"), "count_nonzero": _reduce("count_nonzero"), "sum": _reduce("sum"), "max": _reduce("max"), "min": _reduce("min"),
    "amax": _reduce("max"), "amin": _reduce("min"), "logical_not": _unary(lambda x: not x, out="b"), "invert": _np_invert,
    "bitwise_not": _np_invert, "logical_and": _bin_fn(ast.BitAnd, logical=True), "logical_or": _bin_fn(ast.BitOr, logical=True),
    "logical_xor": _bin_fn(ast.BitXor, logical=True), "bitwise_and": _bin_fn(ast.BitAnd), "bitwise_or": _bin_fn(ast.BitOr),
    "bitwise_xor": _bin_fn(ast.BitXor), "equal": _bin_fn(ast.Eq, cmp=True), "not_equal": _bin_fn(ast.NotEq, cmp=True),
    "less": _bin_fn(ast.Lt, cmp=True), "less_equal": _bin_fn(ast.LtE, cmp=True), "greater": _bin_fn(ast.Gt, cmp=True),
    "greater_equal": _bin_fn(ast.GtE, cmp=True), "add": _bin_fn(ast.Add), "subtract": _bin_fn(ast.Sub), "multiply": _bin_fn(ast.Mult),
    "mod": _bin_fn(ast.Mod), "remainder": _bin_fn(ast.Mod), "floor_divide": _bin_fn(ast.FloorDiv), "array_equal": _np_array_equal,
    "issubdtype": _np_issubdtype, "dtype": _np_dtype, "size": _np_size, "ndim": _np_ndim, "shape": _np_shape, "cumsum": _np_cumsum,
    "bincount": _np_bincount, "copy": _np_copy, "flip": _np_flip, "fromiter": _np_fromiter, "ravel": lambda a: _whole_view(as_arr(a)),
    "abs": _unary(abs, "if"), "absolute": _unary(abs, "if"), "negative": _unary(operator.neg, "if"),
    "bool_": DType("b"), "bool8": DType("b"), "int64": DType("i"), "int32": DType("i"), "intp": DType("i"), "int_": DType("i"), "intc": DType("i"),
    "float64": DType("f"), "float_": DType("f"), "double": DType("f"), "ndarray": Arr,
    "integer": _Abstract("i"), "signedinteger": _Abstract("i"), "floating": _Abstract("f"), "number": _Abstract("if"), "generic": _Abstract("bif"),
    "newaxis": None, "True_": True, "False_": False, "compress": _np_compress, "extract": _np_extract,
    "set_printoptions": lambda *a, **k: None,           # formatting of printed arrays: no effect on values
}


def _method(arr, name):
    """bound method / attribute `name` of an array"""
    if name in ("size",):
        return len(arr)
    if name == "shape":
        return (len(arr),)
    if name == "ndim":
        return 1
    if name == "dtype":
        return DType(arr.kind)
    if name == "T":
        return arr
    if name == "nonzero":
        return lambda: _np_nonzero(arr)
    if name == "astype":
        def astype(dtype, copy=True, **kw):
            _no_kw(kw)
            k = _kind_of_spec(dtype)
            return Arr([_conv(x, k) for x in arr.vals()], k)
        return astype
    if name == "copy":
        return lambda *a, **k: Arr(arr.items, arr.kind)
    if name in ("any", "all", "sum", "max", "min"):
        return lambda axis=None, **kw: _reduce(name)(arr, axis, **kw)
    if name == "tolist":
        return lambda: list(arr.vals())
    if name == "fill":
        def fill(v):
            if arr.view:
                raise Unsupported("world: store through a view of an array")
            if _scalar_kind(v) is None:
                raise Unsupported("world: fill with a non-scalar")
            arr.items[:] = [_conv(v, arr.kind)] * len(arr)
        return fill
    if name in ("ravel", "view", "squeeze") or name == "reshape":
        def flat(*a, **kw):
            if name == "reshape" and a not in ((-1,), ((-1,),), (len(arr),), ((len(arr),),)):
                raise Unsupported("world: reshape to another shape")
            if name == "squeeze" and len(arr) == 1:
                raise Unsupported("world: squeeze to a 0-d array")
            if name != "reshape" and (a or kw):
                raise Unsupported(f"world: {name} with arguments")
            return _whole_view(arr)
        return flat
    if name == "flatten":
        return lambda *a: Arr(arr.items, arr.kind)
    if name == "item":
        def item(*a):
            if a or len(arr) != 1:
                raise Unsupported("world: item() of an array that has not one element")
            return arr.vals()[0]
        return item
    if name == "sort":
        def sort(axis=-1, **kw):
            _no_kw(kw, ("kind",))
            if arr.view:
                raise Unsupported("world: store through a view of an array")
            arr.items[:] = sorted(arr.vals())
        return sort
    if name == "argsort":
        return lambda axis=-1, kind=None: _np_argsort(arr, axis, kind)
    if name == "take":
        return lambda indices, axis=None, mode="raise": _np_take(arr, indices, axis, mode)
    if name == "put":
        return lambda ind, v, mode="raise": _np_put(arr, ind, v, mode)
    if name == "cumsum":
        return lambda axis=None: _np_cumsum(arr, axis)
    if name in ("__len__", "__getitem__", "__setitem__", "__invert__", "__and__", "__or__", "__xor__", "__iter__"):
        return getattr(arr, name)
    raise Unsupported(f"world: ndarray.{name} is outside the modelled subset")


class ArrayFolder(Folder):
    """the constant folder with the numpy model above"""

    def _truth(self, v):          # noqa: D401  (instance method here; the base declares it static)
        if isinstance(v, Arr):
            return truth(v)
        if isinstance(v, (DType, _Abstract)):
            raise Unsupported("world: truth value of a dtype")
        return Folder._truth(v)

    def _iter(self, v, node):
        if isinstance(v, Arr):
            return iter(v)
        return super()._iter(v, node)

    def _attr(self, base, name, node):
        if isinstance(base, _Ext):
            if base.name == "numpy":
                if name in NP:
                    return NP[name]
                raise Unsupported(f"world: np.{name} is outside the modelled subset ({self.rel}:{getattr(node, 'lineno', '?')})")
            return super()._attr(base, name, node)
        if isinstance(base, Arr):
            return _method(base, name)
        if isinstance(base, DType):
            if name == "kind":
                return base.kind
            if name == "type":
                return base
            raise Unsupported(f"world: dtype.{name}")
        return super()._attr(base, name, node)

    def _binop(self, op, a, b, node, inplace=False):
        if isinstance(a, Arr) or isinstance(b, Arr):
            r = binop(op, a, b)
            if inplace and isinstance(a, Arr):
                if a.view:
                    raise Unsupported("world: store through a view of an array")
                if len(r) != len(a):
                    raise NumpyRaise("ValueError", "non-broadcastable output operand", node)
                if _RANK[r.kind] > _RANK[a.kind]:
                    raise NumpyRaise("TypeError", "Cannot cast ufunc output to the dtype of the in-place operand", node)
                a.items[:] = [_conv(x, a.kind) for x in r.vals()]
                return a
            return r
        return super()._binop(op, a, b, node, inplace)

    def _store(self, target, v, frames):
        if isinstance(target, ast.Subscript):
            base = self._ev(target.value, frames)
            if isinstance(base, Arr):
                try:
                    setitem(base, self._index(target.slice, frames), v)
                except NumpyRaise as e:
                    e.node = e.node or target
                    raise
                return
        super()._store(target, v, frames)

    def _ev(self, node, frames):
        if isinstance(node, ast.Name):
            v = super()._ev(node, frames)
            if isinstance(v, _Ext) and v.name.startswith("numpy.") and v.name.count(".") == 1:
                nm = v.name.split(".")[1]
                if nm not in NP:
                    raise Unsupported(f"world: numpy.{nm} is outside the modelled subset")
                return NP[nm]
            return v
        if isinstance(node, ast.Subscript):
            self._tick(node)
            base = self._ev(node.value, frames)
            if isinstance(base, Arr):
                try:
                    return getitem(base, self._index(node.slice, frames))
                except NumpyRaise as e:
                    e.node = e.node or node
                    raise
            ix = self._index(node.slice, frames)
            if isinstance(ix, Arr):
                if isinstance(base, (list, tuple)) and len(ix) == 1 and ix.kind == "i":
                    ix = ix.vals()[0]           # a one-element integer array is an index (operator.index)
                else:
                    raise NumpyRaise("TypeError", "only integer scalar arrays can be converted to a scalar index", node)
            if isinstance(base, (dict, list, tuple, str, range)):
                try:
                    return base[ix]
                except (KeyError, IndexError, TypeError) as e:
                    err = FoldRaise(f"{type(e).__name__}: {e}", node)
                    # an integer outside a tuple / list (tf.nonzero()[1]) is an IndexError in Python as in the model
                    err.trusted = isinstance(e, IndexError) and isinstance(base, (tuple, list)) and isinstance(ix, int) and not isinstance(ix, bool)
                    raise err
            raise Unsupported(f"fold: subscript of {type(base).__name__} ({self.rel}:{node.lineno})")
        if isinstance(node, ast.UnaryOp):
            self._tick(node)
            v = self._ev(node.operand, frames)
            if isinstance(v, Arr):
                if isinstance(node.op, ast.Invert):
                    return invert(v)
                if isinstance(node.op, ast.Not):
                    return not truth(v)
                if isinstance(node.op, ast.USub) and v.kind != "b":
                    return Arr([-x for x in v.vals()], v.kind)
                raise Unsupported("world: unary operator on an array")
            if isinstance(v, bool) and isinstance(node.op, ast.Invert):
                raise Unsupported("world: ~ on a bool scalar (numpy.bool_ and Python bool differ)")
            if isinstance(node.op, ast.Not):
                return not self._truth(v)
            if isinstance(v, int):
                return {ast.Invert: operator.invert, ast.USub: operator.neg, ast.UAdd: operator.pos}[type(node.op)](int(v))
            raise Unsupported("fold: unary operator on " + type(v).__name__)
        if isinstance(node, ast.Compare):
            self._tick(node)
            left = self._ev(node.left, frames)
            vals = [self._ev(c, frames) for c in node.comparators]
            if not any(isinstance(x, (Arr, DType, _Abstract)) for x in [left] + vals):
                return self._compare_plain(node, left, vals)
            if len(vals) != 1:
                raise Unsupported("world: chained comparison with arrays")
            op, right = node.ops[0], vals[0]
            if isinstance(op, (ast.Is, ast.IsNot)):
                if left is None or right is None:
                    return isinstance(op, ast.IsNot)
                raise Unsupported("world: identity test on arrays")
            if isinstance(left, (DType, _Abstract)) or isinstance(right, (DType, _Abstract)):
                if isinstance(op, (ast.Eq, ast.NotEq)) and not isinstance(left, (Arr, _Abstract)) and not isinstance(right, (Arr, _Abstract)):
                    d, o = (left, right) if isinstance(left, DType) else (right, left)
                    if _kind_of_spec(o, strict=False) is None:
                        raise Unsupported("world: dtype compared with " + repr(o))
                    return (d == o) == isinstance(op, ast.Eq)
                if isinstance(op, (ast.In, ast.NotIn)) and isinstance(left, DType) and isinstance(right, (tuple, list)):
                    if any(_kind_of_spec(o, strict=False) is None for o in right):
                        raise Unsupported("world: dtype membership test")
                    return any(left == o for o in right) == isinstance(op, ast.In)
                raise Unsupported("world: comparison with a dtype")
            if isinstance(op, (ast.In, ast.NotIn)):
                if isinstance(right, Arr) and _scalar_kind(left) is not None:
                    return any(left == x for x in right.vals()) == isinstance(op, ast.In)
                raise Unsupported("world: membership test with arrays")
            for x in (left, right):
                if not isinstance(x, Arr) and _scalar_kind(x) is None:
                    raise Unsupported(f"world: comparison of an array with a {type(x).__name__}")
            return compare(op, left, right)
        return super()._ev(node, frames)

    def _global(self, name, node):
        import builtins
        top = self._toplevel()
        if "_bound" not in self.__dict__:
            self._bound = set()
            todo = [self.mod.tree]                  # every name a statement outside the function / class bodies binds, wherever it is nested
            while todo:
                n = todo.pop()
                if isinstance(n, (ast.Import, ast.ImportFrom)):
                    self._bound |= {(a.asname or a.name).split(".")[0] for a in n.names}
                elif isinstance(n, ast.Name) and isinstance(n.ctx, ast.Store):
                    self._bound.add(n.id)
                elif isinstance(n, ast.ExceptHandler) and n.name:
                    self._bound.add(n.name)
                if isinstance(n, (ast.FunctionDef, ast.AsyncFunctionDef, ast.ClassDef)):
                    self._bound.add(n.name)
                    self._bound |= {g for x in ast.walk(n) if isinstance(x, ast.Global) for g in x.names}
                    continue
                todo.extend(ast.iter_child_nodes(n))
        if name not in self.globals and name not in top and name not in self._bound and not hasattr(builtins, name) and "*" not in self._bound:
            # bound neither in the function nor by any top-level statement of the module, and not a builtin: a NameError when reached
            err = FoldRaise(f"NameError: name '{name}' is not defined", node, "NameError")
            err.trusted = True
            raise err
        return super()._global(name, node)

    def _compare_plain(self, node, left, vals):
        for op, right in zip(node.ops, vals):
            if not (_plain(left) and _plain(right)):
                if not (isinstance(op, (ast.Is, ast.IsNot)) and (left is None or right is None)):
                    raise Unsupported("fold: comparison of " + type(left).__name__ + " and " + type(right).__name__)
            try:
                r = _CMP[type(op)](left, right)
            except TypeError as e:
                raise FoldRaise(f"TypeError: {e}", node)
            if not r:
                return False
            left = right
        return True

    def _call(self, node, frames):
        try:
            return super()._call(node, frames)
        except NumpyRaise as e:
            e.node = e.node or node
            raise

    def run(self, fname, *args):
        """fresh step budget, then Folder.call"""
        self.steps = 0
        return self.call(fname, *args)


for _k in ("logical_not", "invert", "bitwise_not", "logical_and", "logical_or", "logical_xor", "bitwise_and", "bitwise_or", "bitwise_xor", "equal",
           "not_equal", "less", "less_equal", "greater", "greater_equal", "add", "subtract", "multiply", "mod", "remainder", "floor_divide", "abs",
           "absolute", "negative"):
    NP[_k] = _with_out(NP[_k])


def trusted(e):
    """is this FoldRaise something the analysed function really does (a `raise` / `assert` of its source, or an exception numpy raises for
    a modelled operation) - as opposed to a failure of a Python builtin inside the folder that may be an artefact of the model"""
    return isinstance(e, NumpyRaise) or isinstance(e.node, (ast.Raise, ast.Assert)) or getattr(e, "trusted", False) is True
