"""C14-R4, second half: formrbe3 on a *finite world* of USET tables (helper of verifier/c14.py).

formrbe3 documents `The order of rows and columns corresponds to the order the DOF occur in the USET table`.  The function is run by the
interpreter of verifier/c14_np.py on tiny witness tables (three independent grids and the dependent grid, rows in the caller's order: ids
ascending and not ascending) with an independent list given in yet another order and two different weights.  Labels are touched only through
comparison / equality.  The collaborators are modelled by their documented meaning (expanddof, locate.mat_intersect, mkdofpv) or carry
*labels* instead of numbers: rbgeom_uset returns one symbol per (table row, column), named by the (id, dof) label of the row of the table it
was *given*; a linear solve returns, column by column, an application of the right-hand-side column.  So every column of the returned matrix
says by its value which independent DOF (and which weight) it was computed from, and the sequence of these labels is compared with the order
of occurrence in the table.  Nothing about the spelling of the ordering step is looked at."""
from __future__ import annotations

from . import c14_np as N
from . import c14_sem as G
from . import e2_formula as F
from .core import Unsupported

N2P = "pyyeti/nastran/n2p.py"
DEP = 99
# (ids of the table rows in table order, independent list as the caller writes it: [(dof digits, weight symbol or None, [ids])])
WORLDS = [
    ("ascending ids", (10, 20, 30, 99), [(123, None, (10, 20, 30))]),
    ("ids not ascending", (30, 10, 99, 20), [(123, None, (10, 20, 30))]),
    ("ids not ascending, list in a third order, two weights", (20, 99, 30, 10), [(123, "wA", (30,)), (12, "wB", (10, 20))]),
]


def _table(ids):
    rows, rid, rdof = [], [], []
    for g in ids:
        for d in range(1, 7):
            rows.append(tuple(F.sym(f"u{g}_{d}_{c}") for c in "nxyz"))
            rid.append(F.const(g))
            rdof.append(F.const(d))
    return N.Table(N.as_arr(tuple(rows)), rid, rdof)


def _int_rows(v, what):
    """[[id, dof digits], ...] / [id, ...] of constants -> list of int tuples"""
    a = N.as_arr(v) if isinstance(v, (N.Arr, tuple, N.LVal)) else N.as_arr((v,))
    out = []
    for x in a.flat():
        c = G.const_of(x) if G.is_rat(x) else None
        if c is None or c.denominator != 1:
            raise Unsupported(f"{what}: an entry that is not an integer constant ({x!r})")
        out.append(int(c))
    return a.shape, out


def _expand(v, what):
    shape, flat = _int_rows(v, what)
    if len(shape) < 2 or shape[-1] == 1:
        return [(g, d) for g in flat for d in range(1, 7)]
    if len(shape) != 2 or shape[1] != 2:
        raise Unsupported(f"{what}: shape {shape}")
    out = []
    for k in range(shape[0]):
        g, digits = flat[2 * k], flat[2 * k + 1]
        if digits <= 6:
            out.append((g, digits))
        else:
            out.extend((g, int(ch)) for ch in str(digits))
    return out


def _mat(rows, width=2):
    if not rows:
        return N.Arr.new([], (0, width))
    return N.as_arr(tuple(tuple(F.const(x) for x in r) for r in rows))


def _rows2(v, what):
    shape, flat = _int_rows(v, what)
    if len(shape) == 1:
        return [(x,) for x in flat]
    if len(shape) != 2:
        raise Unsupported(f"{what}: shape {shape}")
    w = shape[1]
    return [tuple(flat[k * w:(k + 1) * w]) for k in range(shape[0])]


def _hook(log):
    def hook(name, args, kwargs, node, ip):
        short = name.split(".")[-1]
        if short == "expanddof" and len(args) == 1 and not kwargs:
            return _mat(_expand(args[0], "expanddof"))
        if short == "mat_intersect" and 2 <= len(args) + len(kwargs) <= 3:
            d1 = args[0] if args else kwargs.get("D1")
            d2 = args[1] if len(args) > 1 else kwargs.get("D2")
            keep = args[2] if len(args) > 2 else kwargs.get("keep", F.const(0))
            keep = G.int_of(keep)
            r1, r2 = _rows2(d1, "mat_intersect"), _rows2(d2, "mat_intersect")
            if keep not in (0, 1, 2):
                raise Unsupported("mat_intersect: keep")
            if keep == 0:
                keep = 1 if len(r1) <= len(r2) else 2
            pv1, pv2 = [], []
            if keep == 1:            # loop over D1, finding where the rows occur in D2
                for i, r in enumerate(r1):
                    if r in r2:
                        pv1.append(i)
                        pv2.append(r2.index(r))
            else:                    # loop over D2, finding where the rows occur in D1
                for j, r in enumerate(r2):
                    if r in r1:
                        pv1.append(r1.index(r))
                        pv2.append(j)
            ip.sh.calls.append((name, list(args), dict(kwargs), node))
            return (N.as_arr(tuple(F.const(x) for x in pv1)) if pv1 else N.Arr.new([], (0,)),
                    N.as_arr(tuple(F.const(x) for x in pv2)) if pv2 else N.Arr.new([], (0,)))
        if short == "mkdofpv" and len(args) >= 3 and isinstance(args[0], N.Table) and N.str_of(args[1]) == "p":
            t = args[0]
            labels = [(G.int_of(i), G.int_of(d)) for i, d in zip(t.ids, t.dofs)]
            want = _expand(args[2], "mkdofpv")                       # `maintains the order of DOF as specified`
            pv = []
            for w in want:
                if w not in labels:
                    raise N.PyError("ValueError", f"mkdofpv: DOF {w} not found in the table")
                pv.append(labels.index(w))
            return (N.as_arr(tuple(F.const(x) for x in pv)), _mat(want))
        if short == "rbgeom_uset" and args and isinstance(args[0], N.Table):
            t = args[0]
            ref = args[1] if len(args) > 1 else kwargs.get("refpoint")
            log.append(("rbgeom_uset", [(G.int_of(i), G.int_of(d)) for i, d in zip(t.ids, t.dofs)], ref))
            return N.as_arr(tuple(tuple(F.sym(f"rb_{G.int_of(i)}_{G.int_of(d)}_{c}") for c in range(6)) for i, d in zip(t.ids, t.dofs)))
        if short == "cond" and len(args) == 1:
            return F.const(1)
        if short in ("solve", "lstsq") and len(args) >= 2 and isinstance(args[0], N.Arr) and isinstance(args[1], N.Arr):
            a, b = args[0], args[1]
            if a.ndim != 2 or b.ndim != 2 or a.shape[0] != b.shape[0]:
                raise Unsupported("linear solve: shapes")
            bn = b.nested()
            cols = [tuple(bn[i][j] for i in range(b.shape[0])) for j in range(b.shape[1])]
            x = tuple(tuple(F.fn("solvecol", F.const(i), *[G.wrap(c) for c in cols[j]]) for j in range(b.shape[1])) for i in range(a.shape[1]))
            x = N.as_arr(x)
            if short == "lstsq":
                return (x, F.fn("opaque", "lstsq-residues"), F.const(a.shape[1]), F.fn("opaque", "lstsq-sv"))
            return x
        return NotImplemented
    return hook


def _labels(v, dep):
    """independent (id, dof) labels and weight symbols a value was computed from"""
    labs, wts = set(), set()
    for _, d in G.atoms_of(v):
        if d[0] == "s" and d[1].startswith("rb_"):
            _, g, dof, _c = d[1].split("_")
            if int(g) != dep:
                labs.add((int(g), int(dof)))
        elif d[0] == "s" and d[1] in ("wA", "wB"):
            wts.add(d[1])
    return labs, wts


def run_world(ctx, fn, name, ids, groups):
    """-> (expected [(id, dof, weight)], found [(labels, weights)] per column) for UM_List=None; raises Unsupported / N.PyError wrapped"""
    ind = []
    weight_of = {}
    for digits, w, gs in groups:
        ind.append(N.LVal([F.const(digits), F.sym(w)]) if w else F.const(digits))
        ind.append(N.LVal([F.const(g) for g in gs]))
        for g in gs:
            for ch in str(digits):
                weight_of[(g, int(ch))] = w
    expected = [(g, d, weight_of[(g, d)]) for g in ids for d in range(1, 7) if (g, d) in weight_of]
    log = []
    args = {"uset": _table(ids), "GRID_dep": F.const(DEP), "DOF_dep": F.const(123456), "Ind_List": N.LVal(ind), "UM_List": G.NONE}
    runs = N.explore(ctx, N2P, fn, args, hook=_hook(log), stops=("expanddof", "mkdofpv", "rbgeom_uset", "mksetpv"))
    out = []
    for r in runs:
        if r.pyerror:
            raise Unsupported(f"run-time error {r.pyerror}") if not r.sure else _Crash(r.pyerror)
        if r.raised:
            continue
        if not (isinstance(r.ret, N.Arr) and r.ret.ndim == 2):
            raise Unsupported(f"the value returned is not a matrix ({str(r.ret)[:80]})")
        res = r.ret.nested()
        if G.any_unknown(res):
            raise Unsupported("the result has entries the evaluation could not compute")
        cols = []
        for j in range(r.ret.shape[1]):
            cols.append(_labels(tuple(res[i][j] for i in range(r.ret.shape[0])), DEP))
        out.append(cols)
    if not out:
        raise Unsupported("no regime returns")
    return expected, out


class _Crash(Exception):
    pass
