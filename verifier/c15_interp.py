"""C15 helper engine: symbolic evaluation of array code with arrays as *objects*.

Built on `e2_eval.AutoEvaluator` (unknown names are symbols, temporaries are substituted, unknown calls are opaque applications); added here:

  * the functions are evaluated *as written* (`raw_module`): the canonical form of `e1_canon` substitutes extra temporaries back into their
    users, which duplicates displays (`out = {...}`) and dissolves views (`col = A[:, j]`) - an evaluator on values needs no such help;
  * every `np.empty / zeros / ones / full / eye / *_like / X.copy()` is a fresh array object `@k` with the *value* of its shape tuple (whatever
    temporaries, slices of tuples or module constants hold it); names, dict entries and helper parameters that refer to it are aliases;
  * `X[...]` on an array of known rank is the canonical atom `sel(X, s0, ..., s_{n-1})` (one selector per axis: `:` or the index value), so
    `X[:, j, :]`, `X[:, j]`, `X[..., j, :]`, `np.moveaxis(X, 1, 0)[j]` and `X.T[j]` (matrix) are one value; loads and stores are logged with the
    loops they happen in; a load right after a store with the same selectors reads the stored value; a name bound to a basic-indexing view of
    an array object (`col = A[:, j]`) stays a view: `col[:] = x` stores into A and reading `col` afterwards reads x; `.copy()` of a view is a
    new object; functions that are followed receive views by reference;
  * `len(X)` and `X.shape[0]` are one value, `X.shape` of a value of known rank is a tuple of extents (so `r, c = X.shape[:2]` works);
    comparisons have one spelling per relation (`2 == n` is `n == 2`, `a > b` is `b < a`);
  * loops with a symbolic trip count (`for i in range(n)` / `np.arange(n)` / `range(0, n, 1)`, `enumerate(X)`, `zip`, iteration over an array
    or a view, `i = 0; while i < n / i != n / i <= n - 1: ...; i += 1`, list comprehensions) are evaluated once on a fresh index symbol
    whose *domain* (the trip count value) is recorded; loops and comprehensions over literal tuples, strings, dicts and constant ranges are
    unrolled (each pass creates its own objects); `continue` ends a pass;
  * calls to functions of the same module, to closures and lambdas are followed on the argument values (same trace, same loop context),
    also through an alias (`solve = la.solve`, `run = fs.fsolve`, `build = ode.SolveUnc`); keywords of module functions are put in
    signature order; a helper whose returns depend on tests nobody decides returns `ite(...)` or, failing that, an opaque symbol;
  * `if`: the rule's oracle is asked on the *value* of the test (`truth` composes not / and / or / != / conditional values / literal
    comparisons, so flags and inverted or flattened spellings are decided like the original test); `if t: A(leaves)` followed by R is
    `if t: A else: R`; an arm that only raises (directly or through a raising helper) is the error exit - its test is logged as a guard
    (the equalities that hold afterwards, read from the value of the test: chains, De Morgan forms, `any(... for ...)`, `len({..}) != 1`,
    accumulated flags); otherwise both arms are evaluated, their events are tagged `maybe`, names that differ become `ite(test, a, b)`;
    two arms that both return give one merged return value;
  * `try` with handlers: every arm may run in part (names it binds become opaque); `try / finally` runs as written;
  * `SimpleNamespace(...)`, `dict(...)`, `{...}`, `dict(zip(...))`, dict comprehensions with literal keys, `d.update(...)`, `f(**d)`,
    `ns.x = v`, `setattr / getattr` with literal names, `.items() / .get()` are records by field name.

  * a list filled by `append` (also through `push = acc.append`) at one nesting depth, or once per pass of one symbolic loop, reads like the
    comprehension it replaces; `{i: f(i) for i ...}` over a symbolic range is keyed by its index; `pairs = zip(...)` bound to a name is walked
    by the loop that uses it; `reversed`, `map`, `functools.partial / reduce`, `operator.itemgetter / attrgetter / add / matmul ...`, `sum`,
    `any / all`, `dict.fromkeys`, starred unpacking / arguments / parameters are modelled; import aliases of the module are resolved;
  * `(X + Y)[sel]` is `X[sel] + Y[sel]` (the TAM slab used for `Ms + Ml`); a local that is read before it is bound on the path taken is an
    error value, never a global symbol (deleting an allocation is seen); a name bound on one arm of an undecided test only is that value or
    the opaque `?unbound`.

Nothing of /repo is imported or executed.  Matrix products commute in the formula domain (as everywhere in E2): `np.dot`/`np.matmul`/`@` are
products, `la.solve(X, Y)` is Y/X, `la.inv(X)` is 1/X, `np.transpose(X)` / `X.transpose()` is `X.T`, `np.add / subtract / multiply / divide /
negative / square` are the operators.  What cannot be lowered raises `Unsupported` (exit 2): `break`, `while` loops that are not counted
loops (up: `i = 0; while i < n`, down: `i = n; while i: i -= 1; ...`), `for ... else`, a definite `return` inside a loop with a symbolic trip
count, generators with `yield`, call depth > 6.
"""
from __future__ import annotations

import ast

from . import e2_formula as F
from .core import Unsupported
from .e1_srcmodel import Module, dotted
from .e2_eval import AutoEvaluator, Unknown, is_unknown
from .sem import unfn

ALL = F.sym(":")
NONE = F.sym("None")
MAX_DEPTH = 6
MAX_UNROLL = 16

ALLOC_CTORS = {"np.empty": None, "np.zeros": 0, "np.ones": 1, "numpy.empty": None, "numpy.zeros": 0, "numpy.ones": 1, "np.full": None, "numpy.full": None}
LIKE_CTORS = {"np.empty_like": None, "np.zeros_like": 0, "np.ones_like": 1}
SOLVE = {"la.solve", "np.linalg.solve", "scipy.linalg.solve", "linalg.solve"}
INV = {"la.inv", "np.linalg.inv", "scipy.linalg.inv", "linalg.inv"}
DOT = {"np.dot", "np.matmul"}
UFUNC2 = {"np.add": "+", "np.subtract": "-", "np.multiply": "*", "np.divide": "/", "np.true_divide": "/"}
OPERATOR2 = {"operator.add": "np.add", "operator.sub": "np.subtract", "operator.mul": "np.multiply", "operator.truediv": "np.divide",
             "operator.matmul": "np.matmul"}
IDENT_CALLS = {"np.asarray", "np.array", "np.atleast_1d", "np.atleast_2d", "np.ascontiguousarray", "np.asfortranarray"}
IDENT_METHODS = {"ravel", "flatten", "copy", "squeeze"}
LIST_METHODS = ("append", "extend", "insert", "pop", "clear", "remove", "sort", "reverse")


class Arr:
    def __init__(self, aid, ctor, shape, fill, node, loops, seq, like=None):
        self.id, self.ctor, self.shape, self.fill, self.node, self.loops, self.seq, self.like = aid, ctor, shape, fill, node, loops, seq, like
        self.sym = F.sym(f"@{aid}")
        self.init = None

    def __repr__(self):
        return f"<@{self.id} {self.ctor} {self.shape}>"


class Loop:
    def __init__(self, lid, domain, node, parents):
        self.id, self.domain, self.node, self.parents = lid, domain, node, parents
        self.name = f"%{lid}"
        self.sym = F.sym(self.name)


class Rec:
    """SimpleNamespace / dict with literal field names"""

    _n = 0

    def __init__(self, kind, fields=None):
        self.kind = kind
        self.fields = dict(fields or {})
        Rec._n += 1
        self.sym = F.sym(f"rec#{Rec._n}")

    def __repr__(self):
        return f"<{self.kind} {sorted(self.fields)}>"


class Lst:
    """a list filled by `append`: the items appended at the nesting depth it was created at, or one item per pass of one symbolic loop
    (then it reads like the comprehension `[elt for i in range(n)]`)"""

    def __init__(self, loops):
        self.items, self.loops, self.fam, self.broken, self.comp = [], loops, None, None, None


class IterExpr:
    """`pairs = zip(a, b)` - the iterable expression itself, evaluated by the `for` that walks it"""

    def __init__(self, node):
        self.node = node


class BoundLst:
    """`push = acc.append`"""

    def __init__(self, lst, meth):
        self.lst, self.meth = lst, meth


class Closure:
    def __init__(self, node, env, frame=None):
        self.node, self.env, self.frame = node, env, frame


def is_rat(v):
    return isinstance(v, F.Rat)


def one_sym(v):
    """name of the symbol `v` is, else None"""
    if not is_rat(v):
        return None
    try:
        if not v.d.is_const() or v.d.const_value() != 1 or len(v.n.t) != 1:
            return None
        (m, c), = v.n.t.items()
        if c != 1 or len(m) != 1 or m[0][1] != 1:
            return None
        d = F.atom_desc(m[0][0])
    except Exception:  # noqa
        return None
    return d[1] if d[0] == "s" else None


def const_int(v):
    if is_rat(v) and v.is_const():
        c = v.const_value()
        if c.denominator == 1:
            return int(c)
    return None


def same(a, b):
    if a is None or b is None or is_unknown(a) or is_unknown(b):
        return False
    if isinstance(a, tuple) or isinstance(b, tuple):
        return isinstance(a, tuple) and isinstance(b, tuple) and len(a) == len(b) and all(same(x, y) for x, y in zip(a, b))
    if not is_rat(a) or not is_rat(b):
        return a is b
    try:
        return a.equals(b)
    except Unsupported:
        return False


_SYMMETRIC = ("Eq", "NotEq", "Is", "IsNot")
_SWAP = {"Gt": "Lt", "GtE": "LtE"}


def cmp_value(op, a, b):
    """one spelling per relation: `2 == n` is `n == 2`, `a > b` is `b < a`"""
    if op in _SWAP:
        op, a, b = _SWAP[op], b, a
    if op in _SYMMETRIC and repr(b) < repr(a):
        a, b = b, a
    return F.fn("cmp:" + op, a, b)


_NOLIT = object()


def literal(v):
    """python value of a value that is a literal (number, string, True / False / None), else _NOLIT"""
    if not is_rat(v):
        return _NOLIT
    if v.is_const():
        return v.const_value()
    n = one_sym(v)
    if n in ("True", "False", "None"):
        return {"True": True, "False": False, "None": None}[n]
    s_ = str_const(v)
    return _NOLIT if s_ is None else s_


def truth(v, atom):
    """three-valued truth of a test *value*: `atom(value) -> True / False / None` answers for the relations the rule knows, `not`, `and`, `or`,
    `!=` / `is not` and conditional values are composed here - so a flag (`skip = not isinstance(...)`; `if skip:`) is decided like the test
    it was computed from"""
    if not is_rat(v):
        return None
    r = atom(v)
    if r is not None:
        return r
    lit = literal(v)
    if lit is not _NOLIT:
        return bool(lit)
    u = unfn(v)
    if not u:
        return None
    name, args = u
    if name in ("cmp:Eq", "cmp:Is") and len(args) == 2:
        if same(args[0], args[1]):
            return True
        a, b = literal(args[0]), literal(args[1])
        if a is not _NOLIT and b is not _NOLIT:
            return a == b                       # `kind == "drm"` on a flag that holds a literal
    if name == "not" and len(args) == 1:
        r = truth(args[0], atom)
        return None if r is None else not r
    if name in ("bool:And", "bool:Or"):
        rs = [truth(a, atom) for a in args]
        if name == "bool:And":
            return False if any(r is False for r in rs) else (True if all(r is True for r in rs) else None)
        return True if any(r is True for r in rs) else (False if all(r is False for r in rs) else None)
    if name in ("cmp:NotEq", "cmp:IsNot") and len(args) == 2:
        r = truth(F.fn("cmp:Eq" if name == "cmp:NotEq" else "cmp:Is", *args), atom)
        return None if r is None else not r
    if name == "ite" and len(args) == 3:
        c = truth(args[0], atom)
        if c is not None:
            return truth(args[1] if c else args[2], atom)
        a, b = truth(args[1], atom), truth(args[2], atom)
        return a if a == b else None
    return None


_CONNECTIVES = ("not", "bool:And", "bool:Or", "ite")


def _set_len_items(x):
    """`len({a, b, c})` -> [a, b, c]"""
    ux = unfn(x) if is_rat(x) else None
    if ux and ux[0] == "call:len" and len(ux[1]) == 1:
        w = unfn(ux[1][0])
        if w and w[0] == "set":
            return list(w[1])
    return None


class Table:
    """propositional view of test values: formulas over elementary tests (comparisons, opaque flags), evaluated by truth table"""

    def __init__(self):
        self.atoms = []         # (key value, pairs of values that are equal when the atom is true)

    def atom_of(self, x):
        """-> (index of the elementary test, negated)"""
        u = unfn(x)
        neg = False
        if u and u[0] in ("cmp:NotEq", "cmp:IsNot") and len(u[1]) == 2:
            x, neg = F.fn("cmp:Eq" if u[0] == "cmp:NotEq" else "cmp:Is", *u[1]), True
        elif u and u[0] in ("cmp:Lt", "cmp:LtE") and len(u[1]) == 2 and const_int(u[1][0]) == (1 if u[0] == "cmp:Lt" else 2) and _set_len_items(u[1][1]) is not None:
            x, neg = cmp_value("Eq", F.const(1), u[1][1]), True          # len({..}) > 1  is  not len({..}) == 1
        for i, (k, _) in enumerate(self.atoms):
            if same(k, x):
                return i, neg
        u = unfn(x)
        pairs = []
        if u and u[0] == "cmp:Eq" and len(u[1]) == 2:
            pairs = [(u[1][0], u[1][1])]
            for a, b in ((u[1][0], u[1][1]), (u[1][1], u[1][0])):
                items = _set_len_items(a)
                if items is not None and const_int(b) == 1:
                    pairs = list(zip(items, items[1:]))          # len({a, b, c}) == 1: all the same
                ua = unfn(a)
                if ua and ua[0] == "call:.count" and len(ua[1]) == 2 and unfn(ua[1][0]) and unfn(ua[1][0])[0] == "tuple" \
                        and const_int(b) == len(unfn(ua[1][0])[1]):
                    pairs = [(y, ua[1][1]) for y in unfn(ua[1][0])[1]]          # (a, b, c).count(x) == 3: every item is x
        self.atoms.append((x, pairs))
        return len(self.atoms) - 1, neg

    def build(self, x):
        """formula tree: ('lit', bool) / ('atom', i, negated) / (connective, children...)"""
        lit = literal(x)
        if lit is not _NOLIT:
            return ("lit", bool(lit))
        u = unfn(x)
        if u and u[0] in _CONNECTIVES:
            return (u[0],) + tuple(self.build(a) for a in u[1])
        if u and u[0] in ("cmp:Eq", "cmp:NotEq", "cmp:Is", "cmp:IsNot") and len(u[1]) == 2:
            a, b = u[1]
            la, lb = literal(a), literal(b)
            if la is not _NOLIT and lb is not _NOLIT:
                return ("lit", (la == lb) == (u[0] in ("cmp:Eq", "cmp:Is")))       # 'absent' == 'absent'
            for c, o in ((a, b), (b, a)):
                uc = unfn(c)
                if uc and uc[0] == "ite" and len(uc[1]) == 3:
                    # a comparison with a conditional value: status == 'x' with status = ite(t, p, q) is ite(t, p == 'x', q == 'x')
                    op = u[0][4:]
                    return ("ite", self.build(uc[1][0]), self.build(cmp_value(op, uc[1][1], o)), self.build(cmp_value(op, uc[1][2], o)))
        i, neg = self.atom_of(x)
        return ("atom", i, neg)

    @staticmethod
    def val(t, asg):
        k = t[0]
        if k == "lit":
            return t[1]
        if k == "atom":
            return asg[t[1]] != t[2]
        if k == "not":
            return not Table.val(t[1], asg)
        if k == "bool:And":
            return all(Table.val(c, asg) for c in t[1:])
        if k == "bool:Or":
            return any(Table.val(c, asg) for c in t[1:])
        return Table.val(t[2], asg) if Table.val(t[1], asg) else Table.val(t[3], asg)      # ite

    def models(self, premises):
        """assignments of the elementary tests under which every (tree, wanted truth) premise holds; None when there are too many tests"""
        n = len(self.atoms)
        if n > 10:
            return None
        out = []
        for bits in range(1 << n):
            asg = [(bits >> i) & 1 == 1 for i in range(n)]
            if all(self.val(t, asg) == w for t, w in premises):
                out.append(asg)
        return out


def equalities(v, want=True):
    """pairs of values that are equal whenever the test value `v` has the truth value `want`.  The test is a propositional formula (not / and /
    or / conditional values from flags set under nested tests) over elementary comparisons; an equality follows when it holds under every
    assignment of the elementary tests that gives the formula the wanted value (truth table, at most 10 elementary tests).  So chains, De Morgan
    forms, `any(...)` / `all(...)`, flags accumulated step by step (`ok = a == b; if ok: ok = b == c`) and `len({a, b, c}) == 1` all yield
    the same pairs."""
    if not is_rat(v):
        return []
    tb = Table()
    tree = tb.build(v)
    ms = tb.models([(tree, want)])
    if not ms or not tb.atoms:
        return []
    return [p for i, (_, pairs) in enumerate(tb.atoms) if all(m[i] for m in ms) for p in pairs]


def entails(premises, v):
    """the test values `premises` = [(value, truth)] hold: is the test value `v` then true (True), false (False), or open (None)?"""
    if not is_rat(v) or not all(is_rat(p) for p, _ in premises):
        return None
    tb = Table()
    trees = [(tb.build(p), w) for p, w in premises]
    goal = tb.build(v)
    ms = tb.models(trees)
    if not ms:
        return None
    vals = {tb.val(goal, m) for m in ms}
    return vals.pop() if len(vals) == 1 else None


def str_const(v):
    """python string of a value that is a string literal, else None"""
    n = one_sym(v)
    if n and len(n) >= 2 and n[0] in "'\"" and n[-1] == n[0]:
        try:
            return ast.literal_eval(n)
        except Exception:  # noqa
            return None
    return None


def always_ends(stmts):
    """every path through the statements leaves the block (return / raise / continue)"""
    if not stmts:
        return False
    last = stmts[-1]
    if isinstance(last, (ast.Raise, ast.Return, ast.Continue)):
        return True
    if isinstance(last, ast.If):
        return always_ends(last.body) and always_ends(last.orelse)
    return False


def local_names(fn):
    """names the function binds somewhere in its own body (reading one before it is bound is an UnboundLocalError, not a global lookup)"""
    out, free = set(), set()
    stack = list(fn.body)
    while stack:
        n = stack.pop()
        if isinstance(n, (ast.FunctionDef, ast.AsyncFunctionDef, ast.ClassDef)):
            out.add(n.name)
            continue
        if isinstance(n, ast.Lambda):
            continue
        if isinstance(n, (ast.ListComp, ast.SetComp, ast.DictComp, ast.GeneratorExp)):
            # the targets of a comprehension live in its own scope; walrus targets inside it do not
            stack.extend(x for x in ast.walk(n) if isinstance(x, ast.NamedExpr))
            continue
        if isinstance(n, (ast.Global, ast.Nonlocal)):
            free.update(n.names)
        elif isinstance(n, ast.Name) and isinstance(n.ctx, (ast.Store, ast.Del)):
            out.add(n.id)
        elif isinstance(n, (ast.Import, ast.ImportFrom)):
            out.update((a.asname or a.name).split(".")[0] for a in n.names)
        elif isinstance(n, ast.ExceptHandler) and n.name:
            out.add(n.name)
        stack.extend(ast.iter_child_nodes(n))
    return out - free


def _empty_list(node):
    return (isinstance(node, ast.List) and not node.elts) or (isinstance(node, ast.Call) and isinstance(node.func, ast.Name) and node.func.id == "list"
                                                             and not node.args and not node.keywords)


def _has_return(stmts):
    """a `return` somewhere in the statements (not inside a nested function)"""
    stack = list(stmts)
    while stack:
        n = stack.pop()
        if isinstance(n, ast.Return):
            return True
        if isinstance(n, (ast.FunctionDef, ast.AsyncFunctionDef, ast.Lambda, ast.ClassDef)):
            continue
        stack.extend(ast.iter_child_nodes(n))
    return False


def raw_module(ctx, rel):
    """the module parsed as it is written.  `ctx.src.mod(rel).tree` went through `e1_canon` (polarity of tests, extra temporaries substituted
    back into their users); that form serves text rules, but it substitutes a *display* (`out = {...}` used four times becomes four dicts,
    `col = A[:, j]` becomes `A[:, j][:] = ...`) and so loses the identity of an object - and an evaluator on values needs neither normalisation.
    Same node annotations as e1_srcmodel.Module (`ctx.src.where / seg` work on these nodes)."""
    cache = ctx.src.__dict__.setdefault("_c15_raw", {})
    m = cache.get(rel)
    if m is None:
        canon = ctx.src.mod(rel)                     # AnchorError when the file is gone; digest recorded as consulted
        m = Module.__new__(Module)
        m.rel, m.path, m.digest, m.source, m.renamed = rel, canon.path, canon.digest, canon.source, []
        m.tree = ast.parse(m.source, filename=m.path)
        m.funcs, m.classes = {}, {}
        m._index(m.tree, "", None)
        cache[rel] = m
    return m


def raw_func(ctx, rel, qual):
    ctx.src.func(rel, qual)                          # anchor check + registration of the consulted function
    return raw_module(ctx, rel).funcs[qual]


def raw_funcs(ctx, rel, exclude=()):
    """{name: FunctionDef} of the module-level functions of `rel`, as written"""
    return {q: f for q, f in raw_module(ctx, rel).funcs.items() if "." not in q and "#" not in q and q not in exclude}


SHORT = {"numpy": "np", "scipy.linalg": "la", "numpy.linalg": "np.linalg", "pyyeti.ode": "ode", "pyyeti.cb": "cb", "pyyeti.locate": "locate", "math": "math",
         "types.SimpleNamespace": "SimpleNamespace"}


def module_imports(ctx, rel):
    """{local name: the spelling the tables of this engine use} for the imports of the module: whatever alias a module gives to numpy,
    scipy.linalg, pyyeti.ode ... a call is known by what it calls (`sla.solve`, `from scipy.linalg import solve`, `NS = SimpleNamespace`)"""
    out = {}
    for st in raw_module(ctx, rel).tree.body:
        if isinstance(st, ast.Import):
            for a in st.names:
                if a.asname:
                    out[a.asname] = a.name
        elif isinstance(st, ast.ImportFrom) and st.module and not st.level:
            for a in st.names:
                out[a.asname or a.name] = f"{st.module}.{a.name}"
    res = {}
    for local, full in out.items():
        best = None
        for mod, short in SHORT.items():
            if full == mod or full.startswith(mod + "."):
                if best is None or len(mod) > len(best[0]):
                    best = (mod, short)
        canon = best[1] + full[len(best[0]):] if best else full
        if canon != local:
            res[local] = canon
    return res


def module_consts(ctx, rel):
    out = {}
    for st in raw_module(ctx, rel).tree.body:
        if isinstance(st, ast.Assign) and len(st.targets) == 1 and isinstance(st.targets[0], ast.Name):
            out[st.targets[0].id] = st.value
        elif isinstance(st, ast.AnnAssign) and isinstance(st.target, ast.Name) and st.value is not None:
            out[st.target.id] = st.value
    return out


class Interp(AutoEvaluator):
    def __init__(self, ctx, rel, cond=None, ndim=None, funcs=None):
        super().__init__(None, src=ctx.src, cond=cond)
        self.ctx, self.rel = ctx, rel
        self.consts = module_consts(ctx, rel)
        self.imports = module_imports(ctx, rel)
        self._const_cache = {}
        self.userfuncs = dict(funcs or {})
        self.sigs = {q: [x.arg for x in f.args.posonlyargs + f.args.args] for q, f in raw_funcs(ctx, rel).items()}
        self.ndim_hook = ndim
        self.arrs = {}
        self.loops = {}
        self.comps = {}
        self.keyed = set()          # comprehensions that are dicts keyed by their index
        self.loop_stack = []
        self.events = []
        self.guards = []            # (pairs of values known equal after the guard, If node)
        self.maybe = 0
        self.quiet = 0
        self.maybe_returns = []
        self.depth = 0
        self.frame = object()       # identity of the function activation under evaluation (closures are late-bound to it)
        self.root_env = {}
        self.raised = False
        self.as_base = 0
        self.exit = None            # how the block under evaluation was left (with self.done)
        self.loop_depth = 0
        self.maybe_base = 0
        self.path = []              # (test value, truth) of the undecided tests / guards the statement under evaluation is control dependent on
        self.unbound = set()        # locals of the activation under evaluation (a read of one that is not in env yet cannot be a global)
        self.cont_raises = False    # the statements that follow the block under evaluation only raise
        self._raise_stack = []
        self.tag_conversions = False    # True: np.asarray / np.atleast_nd(x) is the value arr(x), not x
        self.sig_defaults = {}
        for q, f in raw_funcs(ctx, rel).items():
            ps = [x.arg for x in f.args.posonlyargs + f.args.args]
            self.sig_defaults[q] = {p_: self.ev(d) for p_, d in zip(ps[::-1], (f.args.defaults or [])[::-1])}

    # ------------------------------------------------------------------ entry points
    def run_function(self, fn, args=None):
        """evaluate `fn` on its parameter symbols (or the given values); returns the returned value"""
        a = fn.args
        env = {}
        for p in a.posonlyargs + a.args + a.kwonlyargs:
            env[p.arg] = F.sym(p.arg)
        if args:
            env.update(args)
        self.root_env = dict(env)
        self.env = env
        self.unbound = local_names(fn) - set(env)
        self.run(fn.body)
        return self.returns[-1][0] if self.returns else None

    def E(self, text, **bind):
        """value of a Python expression over the parameters of the function under evaluation (expected side of a rule); nothing is logged"""
        saved = self.env
        self.env = dict(self.root_env)
        self.env.update(bind)
        self.quiet += 1
        try:
            return self.ev(ast.parse(text, mode="eval").body)
        finally:
            self.quiet -= 1
            self.env = saved

    def same(self, got, want, **bind):
        w = self.E(want, **bind) if isinstance(want, str) else want
        return same(got, w)

    # ------------------------------------------------------------------ log
    def _log(self, kind, **kw):
        if self.quiet:
            return None
        self.seq += 1
        e = dict(kind=kind, seq=self.seq, loops=tuple(self.loop_stack), maybe=self.maybe > 0, **kw)
        self.events.append(e)
        return e

    def of_kind(self, *kinds):
        return [e for e in self.events if e["kind"] in kinds]

    def calls_of(self, *names):
        return [e for e in self.events if e["kind"] == "call" and e["name"] in names]

    def stores_of(self, arr=None):
        return [e for e in self.events if e["kind"] == "store" and (arr is None or e["arr"] == arr)]

    def known_equal(self, a, b):
        """same value, or equal by the guards passed so far (`if a != b: raise`)"""
        if same(a, b):
            return True
        cls = [a]
        grew = True
        pairs = [p for g, _ in self.guards for p in g]
        while grew:
            grew = False
            for x, y in pairs:
                for u, w in ((x, y), (y, x)):
                    if any(same(u, c) for c in cls) and not any(same(w, c) for c in cls):
                        cls.append(w)
                        grew = True
        return any(same(b, c) for c in cls)

    def arr_of(self, v):
        n = one_sym(v)
        if n and n.startswith("@"):
            return self.arrs.get(int(n[1:]))
        return None

    def loop_of(self, v):
        n = one_sym(v)
        if n and n.startswith("%"):
            return self.loops.get(int(n[1:]))
        return None

    def content(self, arr, seq, loops):
        """live (selectors, value) entries of array `arr` just before event `seq` evaluated inside `loops`: stores of the current pass over the
        enclosing loop bodies, provided every store made by a pass is undone (set back to the fill value) before the pass ends.
        -> list, or None when the state cannot be described (conditional stores, opaque indices, leftovers of earlier passes)"""
        sts = self.stores_of(arr.id)
        if any(s["maybe"] or s["sel"] is None for s in sts) or arr.fill is None:
            return None
        fill = F.const(arr.fill)

        def overlay(seq_):
            live = []
            for s in seq_:
                if all(same(x, ALL) for x in s["sel"]):
                    live = []                       # the whole array is overwritten
                live = [(sl, v) for sl, v in live if not same(tuple(sl), tuple(s["sel"]))]
                live.append((s["sel"], s["value"]))
            return [(sl, v) for sl, v in live if not same(v, fill)]

        now = [s for s in sts if s["seq"] < seq and all(l in loops for l in s["loops"])]
        wipes = [i for i, s in enumerate(now) if all(same(x, ALL) for x in s["sel"]) and s["loops"] == tuple(loops)]
        if wipes:
            # reset in the pass that reads: leftovers of earlier passes do not matter
            return overlay(now[wipes[-1]:])

        # loops that were entered after the array was created and enclose the read: what a full pass leaves behind must be nothing
        outer = [l for l in loops if l not in arr.loops]
        for l in outer:
            body = [s for s in sts if l in s["loops"]]
            if overlay(body):
                return None
        for s in sts:
            if s["seq"] < seq and any(l not in loops for l in s["loops"]):
                # stores of a finished loop with a symbolic index: a whole family of cells
                if not same(s["value"], fill):
                    return None
        return overlay([s for s in sts if s["seq"] < seq and all(l in loops for l in s["loops"])])

    # ------------------------------------------------------------------ values
    def ndim_of(self, v):
        if not is_rat(v):
            return None
        a = self.arr_of(v)
        if a is not None:
            if a.shape is not None:
                return len(a.shape)
            return self.ndim_of(a.like) if a.like is not None else None
        u = unfn(v)
        if u and u[0] == "perm":
            return len(u[1]) - 1
        if u and u[0] == "attr:T":
            return self.ndim_of(u[1][0])
        if u and u[0] == "sel":
            rest = [s for s in u[1][1:] if same(s, ALL) or (unfn(s) and unfn(s)[0] == "slice")]
            return len(rest)
        lt = self.linear_terms(v)
        if lt is not None:
            nds = {self.ndim_of(a) for _, a in lt}          # SAM + LAM: the rank of its terms
            return nds.pop() if len(nds) == 1 else None
        if self.ndim_hook is not None:
            return self.ndim_hook(v, self)
        return None

    @staticmethod
    def linear_terms(v):
        """[(coefficient, atom value)] of a value that is a sum of two or more array atoms (`SAM + LAM`), else None"""
        if not is_rat(v):
            return None
        try:
            if not v.d.is_const() or v.d.const_value() != 1 or len(v.n.t) < 2:
                return None
            out = []
            for m, c in v.n.t.items():
                if len(m) != 1 or m[0][1] != 1:
                    return None
                out.append((c, F.Rat(F.Poly.atom(m[0][0]))))
            return out
        except Exception:  # noqa
            return None

    def as_perm(self, v):
        """(underlying value, axis permutation) of a transposed / moved-axes view; `.T` of a matrix is the permutation (1, 0)"""
        u = unfn(v) if is_rat(v) else None
        if u and u[0] == "perm":
            return u[1][0], [const_int(p) for p in u[1][1:]]
        if u and u[0] == "attr:T" and self.ndim_of(u[1][0]) == 2:
            return u[1][0], [1, 0]
        return None

    def dim(self, v, i):
        """extent of axis i of a value: one spelling for `len(X)` and `X.shape[0]`"""
        sh = self.shape_of(v)
        if sh is not None:
            return sh[i]
        lt = self.linear_terms(v)
        if lt is not None:
            v = sorted((a for _, a in lt), key=repr)[0]         # X + Y has the extents of its terms
            return self.dim(v, i)
        return F.fn("call:len", v) if i == 0 else F.fn("idx", F.fn("attr:shape", v), F.const(i))

    def shape_of(self, v):
        a = self.arr_of(v)
        if a is not None and a.shape is not None:
            return a.shape
        pm = self.as_perm(v)
        if pm is not None:
            return tuple(self.dim(pm[0], p) for p in pm[1])
        return None

    def shape_value(self, v):
        """value of `v.shape`: a tuple of extents when the rank is known, else the opaque attribute"""
        sh = self.shape_of(v)
        if sh is not None:
            return tuple(sh)
        nd = self.ndim_of(v)
        if nd is not None:
            return tuple(self.dim(v, i) for i in range(nd))
        return F.fn("attr:shape", v)

    def length(self, v):
        if isinstance(v, tuple):
            return F.const(len(v))
        if isinstance(v, Rec):
            return F.const(len(v.fields))
        n = one_sym(v)
        if n and n.startswith("comp#"):
            return self.comps[int(n[5:])][1]
        s_ = str_const(v)
        if s_ is not None:
            return F.const(len(s_))
        sh = self.shape_of(v)
        if sh is not None:
            return sh[0]
        u = unfn(v) if is_rat(v) else None
        if u and u[0] == "attr:shape":
            return F.fn("attr:ndim", u[1][0])
        if is_rat(v):
            return F.fn("call:len", v)
        return Unknown("len of a non-value")

    def element(self, v, i, node):
        n = one_sym(v)
        if n and n.startswith("comp#"):
            var, dom, elt = self.comps[int(n[5:])]
            return elt.subs({var: i}) if is_rat(elt) else Unknown("comprehension of non-values")
        return self._select(v, [i], node, False)

    # ------------------------------------------------------------------ indexing
    def _entries(self, sl):
        out = []
        elts = sl.elts if isinstance(sl, ast.Tuple) else [sl]
        for e in elts:
            if isinstance(e, ast.Slice):
                if e.lower is None and e.upper is None and e.step is None:
                    out.append(ALL)
                else:
                    parts = []
                    for p in (e.lower, e.upper, e.step):
                        v = NONE if p is None else self._ev(p)
                        if not is_rat(v):
                            raise Unsupported("slice bound")
                        parts.append(v)
                    out.append(F.fn("slice", *parts))
            elif isinstance(e, ast.Constant) and e.value is Ellipsis:
                out.append("...")
            else:
                v = self._ev(e)
                if isinstance(v, tuple) and not isinstance(sl, ast.Tuple):
                    # X[t] with t a tuple value: a multi-axis index
                    for x in v:
                        if not is_rat(x):
                            raise Unsupported("index")
                        out.append(x)
                    continue
                if not is_rat(v):
                    raise Unsupported(v.why if is_unknown(v) else "index")
                if same(v, F.sym("Ellipsis")):
                    out.append("...")
                elif same(v, NONE):
                    out.append("newaxis")
                else:
                    out.append(v)
        return out

    def _generic_idx(self, base, entries):
        parts = [F.sym("Ellipsis") if e == "..." else (NONE if e == "newaxis" else e) for e in entries]
        parts = [F.fn("slice", NONE, NONE, NONE) if same(p, ALL) else p for p in parts]
        ix = parts[0] if len(parts) == 1 else F.fn("tuple", *parts)
        return F.fn("idx", base, ix), ix

    def _canon(self, base, entries):
        """(underlying array value, selectors on its axes, order of the remaining axes) or None"""
        nd = self.ndim_of(base)
        if nd is None or "newaxis" in entries or entries.count("...") > 1:
            return None
        for e in entries:
            if is_rat(e):
                u = unfn(e)
                if u and u[0].startswith("call:np.ix_"):
                    return None
        n_given = len([e for e in entries if e != "..."])
        if n_given > nd:
            raise Unsupported("too many indices")
        sels = []
        for e in entries:
            if e == "...":
                sels.extend([ALL] * (nd - n_given))
            else:
                sels.append(e)
        sels.extend([ALL] * (nd - len(sels)))
        u = unfn(base)
        pm = self.as_perm(base)
        if pm is not None:
            inner, perm = pm
            under = [ALL] * nd
            for i, s in enumerate(sels):
                under[perm[i]] = s
            rest = [perm[i] for i, s in enumerate(sels) if not self._scalar_sel(s)]
            return inner, under, rest
        if u and u[0] == "sel":
            inner, isel = u[1][0], list(u[1][1:])
            free = [i for i, s in enumerate(isel) if not self._scalar_sel(s)]
            for ax, s in zip(free, sels):
                if same(isel[ax], ALL):
                    isel[ax] = s
                elif not same(s, ALL):
                    return None
            return inner, isel, None
        return base, sels, None

    @staticmethod
    def _scalar_sel(s):
        if same(s, ALL):
            return False
        u = unfn(s)
        return not (u and u[0] == "slice")

    def _select(self, base, entries, node, store, value=None, view=False):
        """value of base[entries] (load) or log of the store"""
        if not is_rat(base):
            return Unknown("subscript of a non-value")
        n = one_sym(base)
        if n and n.startswith("comp#") and not store and len(entries) == 1 and is_rat(entries[0]) and self._scalar_sel(entries[0]):
            var, dom, elt = self.comps[int(n[5:])]
            return elt.subs({var: entries[0]})
        c = self._canon(base, entries)
        if c is None:
            gv, ix = self._generic_idx(base, entries)
            a = self.arr_of(base)
            if store:
                self._log("store", arr=a.id if a else None, base=base, sel=None, ix=ix, value=value, node=node)
                return None
            return gv
        under, sels, rest = c
        lt = self.linear_terms(under) if not store else None
        if lt is not None and (rest is None or rest == sorted(rest)):
            # (X + Y)[:, j, :] is X[:, j, :] + Y[:, j, :]
            parts = [self._select(a_, list(sels), node, False, view=view) for _, a_ in lt]
            if all(is_rat(p_) for p_ in parts):
                tot = F.const(0)
                for (c_, _), p_ in zip(lt, parts):
                    tot = tot + F.const(c_) * p_
                return tot
        a = self.arr_of(under)
        if store:
            self._log("store", arr=a.id if a else None, base=under, sel=sels, ix=None, value=value, node=node)
            return None
        self._log("load", arr=a.id if a else None, base=under, sel=sels, node=node)
        if all(same(s, ALL) for s in sels):
            v = under
        else:
            v = self._forwarded(a, sels) if a is not None and not view else None
            if v is None:
                v = F.fn("sel", under, *sels)
        if rest is not None and rest != sorted(rest):
            # axes of the result are not in the order of the underlying array: a transposed view
            srt = sorted(rest)
            inv = [srt.index(r) for r in rest]
            v = F.fn("attr:T", v) if inv == [1, 0] else F.fn("perm", v, *[F.const(i) for i in inv])
        return v

    # ------------------------------------------------------------------ expressions
    def _ev(self, node):
        if isinstance(node, _Val):
            return node.v
        if isinstance(node, ast.Name):
            if node.id in self.env:
                v = self.env[node.id]
                if isinstance(v, Lst):
                    return self._lst_value(v)
                if is_rat(v) and v.depends_on("?unbound"):
                    v = self._bound_here(v, node.id)
                return v if self.as_base else self._deref(v)
            if node.id in self.unbound:
                return Unknown(f"local `{node.id}` is read before it is bound")
            if node.id in self.consts:
                return self._const(node.id)
            return super()._ev(node)
        if isinstance(node, ast.Attribute):
            return self._attr(node)
        if isinstance(node, ast.Subscript):
            base = self._base(node.value)
            if isinstance(base, Rec):
                kv = self.ev(node.slice)
                k = str_const(kv) if is_rat(kv) else None
                if k is None and const_int(kv) is not None:
                    k = f"#{const_int(kv)}"
                if k is None and set(base.fields) <= {"#0", "#1"}:
                    c = self.decide(node.slice)                 # {True: f, False: g}[test]
                    k = None if c is None else f"#{int(c)}"
                if k is None or k not in base.fields:
                    return Unknown(f"record field {ast.unparse(node.slice)}")
                return base.fields[k]
            if isinstance(base, tuple):
                if isinstance(node.slice, ast.Slice):
                    bs = [None if b is None else const_int(self.ev(b)) for b in (node.slice.lower, node.slice.upper, node.slice.step)]
                    if all(b is not None or x is None for b, x in zip(bs, (node.slice.lower, node.slice.upper, node.slice.step))):
                        return base[slice(*bs)]
                    return Unknown("tuple slice with computed bounds")
                i = self._ev(node.slice) if not isinstance(node.slice, ast.Tuple) else None
                ci = const_int(i) if i is not None else None
                if ci is not None:
                    try:
                        return base[ci]
                    except IndexError:
                        return Unknown("tuple index out of range")
                return Unknown("tuple index that is not a constant")
            if is_unknown(base):
                return base
            ub = unfn(base)
            if ub and ub[0] == "idx" and unfn(ub[1][1]) and unfn(ub[1][1])[0] == "slice" and not isinstance(node.slice, (ast.Slice, ast.Tuple)):
                ci = const_int(self.ev(node.slice))
                if ci is not None and ci >= 0:
                    w = self._item(base, ci)                # S[3:][0] is S[3]
                    uw = unfn(w)
                    if uw and uw[0] == "idx" and not same(uw[1][0], base):
                        return self._select(uw[1][0], [uw[1][1]], node, False)
            if ub and ub[0] == "attr:shape" and not isinstance(node.slice, (ast.Slice, ast.Tuple)):
                ci = const_int(self.ev(node.slice))
                if ci is not None and ci >= 0:
                    return self.dim(ub[1][0], ci)
            try:
                return self._select(base, self._entries(node.slice), node, False)
            except Unsupported as e:
                return Unknown(str(e))
        if isinstance(node, ast.IfExp):
            c = self.decide(node.test)
            if c is True:
                return self._ev(node.body)
            if c is False:
                return self._ev(node.orelse)
            t = self._ev(node.test)
            self.maybe += 1
            try:
                a, b = self._ev(node.body), self._ev(node.orelse)
            finally:
                self.maybe -= 1
            return self._ite(t, a, b)
        if isinstance(node, (ast.ListComp, ast.GeneratorExp, ast.SetComp, ast.DictComp)):
            return self._comp(node)
        if isinstance(node, ast.Lambda):
            return self._lambda(node)
        if isinstance(node, ast.Set):
            vals = [self._ev(e) for e in node.elts]
            return F.fn("set", *vals) if all(is_rat(v) for v in vals) else Unknown("set of non-values")
        if isinstance(node, ast.Dict):
            r = Rec("dict")
            for k, v in zip(node.keys, node.values):
                if k is None:                                   # {**other, ...}
                    o = self.ev(v)
                    if not isinstance(o, Rec):
                        return Unknown("dict display with ** of a non-record")
                    r.fields.update(o.fields)
                    continue
                kv = self._ev(k)
                ks = str_const(kv)
                if ks is None and const_int(kv) is not None:
                    ks = f"#{const_int(kv)}"                    # True / False / small integers as keys
                if ks is None:
                    return Unknown("dict with computed keys")
                r.fields[ks] = self.ev(v)
            return r
        if isinstance(node, ast.Compare):
            # a == b == c  ->  conjunction of the links; a tuple operand is a value of its own
            vals = []
            for x in [node.left] + list(node.comparators):
                v = self._ev(x)
                if isinstance(v, tuple) and all(is_rat(y) for y in v):
                    v = F.fn("tuple", *v)
                if not is_rat(v):
                    return v if is_unknown(v) else Unknown("comparison of non-values")
                vals.append(v)
            links = [cmp_value(type(op).__name__, vals[i], vals[i + 1]) for i, op in enumerate(node.ops)]
            return links[0] if len(links) == 1 else F.fn("bool:And", *links)
        return super()._ev(node)

    def _bound_here(self, v, name, extra=()):
        """a name that an undecided test bound on one arm only (`ite(t, x, ?unbound)`) is read: under tests that imply t it is x; where nothing
        implies t the read may hit an unbound local - an error value"""
        u = unfn(v)
        if one_sym(v) == "?unbound":
            return Unknown(f"local `{name}` is not bound on this path")
        if not (u and u[0] == "ite" and len(u[1]) == 3):
            return v
        t, a, b = u[1]
        r = entails(list(self.path) + list(extra), t)
        if r is True:
            return self._bound_here(a, name, extra)
        if r is False:
            return self._bound_here(b, name, extra)
        if one_sym(a) == "?unbound" or one_sym(b) == "?unbound":
            return Unknown(f"local `{name}` may be unbound here (bound under {t!r} only)")
        ra, rb = self._bound_here(a, name, tuple(extra) + ((t, True),)), self._bound_here(b, name, tuple(extra) + ((t, False),))
        return F.fn("ite", t, ra, rb) if is_rat(ra) and is_rat(rb) else Unknown(f"local `{name}` may be unbound here")

    def _lst_value(self, l):
        if l.broken:
            return Unknown(l.broken)
        if l.fam is None:
            return tuple(l.items)
        lp, elt = l.fam
        if lp.id in self.loop_stack:
            return Unknown("list read while the loop that fills it is running")
        if l.comp is None:
            cid = len(self.comps) + 1
            self.comps[cid] = (lp.name, lp.domain, elt)
            l.comp = F.sym(f"comp#{cid}")
        return l.comp

    def _lst_method(self, l, meth, pos, kws):
        cur = tuple(self.loop_stack)
        if kws or self.maybe > self.maybe_base or l.broken:
            l.broken = l.broken or f"{meth} under an undecided test"
        elif meth == "append" and len(pos) == 1:
            if cur == l.loops and l.fam is None:
                l.items.append(pos[0])
            elif len(cur) == len(l.loops) + 1 and cur[:-1] == l.loops and l.fam is None and not l.items and is_rat(pos[0]):
                l.fam = (self.loops[cur[-1]], pos[0])                # one item per pass
            else:
                l.broken = "appends that do not form one sequence"
        elif meth == "extend" and len(pos) == 1 and self._as_seq(pos[0]) is not None and cur == l.loops and l.fam is None:
            l.items.extend(self._as_seq(pos[0]))
        else:
            l.broken = f"list method {meth}"
        return NONE

    def _base(self, node):
        """value of the expression a subscript is applied to: a name bound to a view stays the view (`col = A[:, j]; col[:] = x` stores into A)"""
        if isinstance(node, ast.Name):
            self.as_base += 1
            try:
                return self._ev(node)
            finally:
                self.as_base -= 1
        if isinstance(node, ast.Subscript):
            inner = self._base(node.value)
            if is_rat(inner):
                return self._select(inner, self._entries(node.slice), node, False, view=True)       # `A[:, j][:] = x`: the cells, not their content
        return self._ev(node)

    def _is_view(self, v):
        """`v` is a basic-indexing view of an array object: every selector is `:`, a slice, a loop index or an integer"""
        u = unfn(v) if is_rat(v) else None
        if not u or u[0] != "sel":
            return None
        a = self.arr_of(u[1][0])
        if a is None:
            return None
        for s_ in u[1][1:]:
            if self._scalar_sel(s_) and self.loop_of(s_) is None and const_int(s_) is None:
                return None
        return a

    def _deref(self, v):
        """a name bound to a view is read: what the last store put into exactly these cells, else the cells themselves"""
        a = self._is_view(v)
        if a is None:
            c = self.arr_of(v)
            if c is not None and c.init is not None and not self.stores_of(c.id):
                return c.init                      # an untouched copy reads as what it was copied from
            return v
        w = self._forwarded(a, list(unfn(v)[1][1:]))
        return v if w is None else w

    def _forwarded(self, a, sels):
        for s_ in reversed(self.stores_of(a.id)):
            if s_["sel"] is not None and not s_["maybe"] and same(tuple(s_["sel"]), tuple(sels)) and is_rat(s_["value"]):
                return s_["value"]
            break
        return None

    def _ite(self, t, a, b):
        if same(a, b):
            return a
        if is_rat(t) and is_rat(a) and is_rat(b):
            return F.fn("ite", t, a, b)
        return Unknown("merge of an undecided test")

    def _const(self, name):
        if name not in self._const_cache:
            self._const_cache[name] = Unknown("recursive module constant")
            saved = self.env
            self.env = {}
            self.quiet += 1
            try:
                self._const_cache[name] = self.ev(self.consts[name])
            finally:
                self.quiet -= 1
                self.env = saved
        return self._const_cache[name]

    def _attr(self, node):
        d = dotted(node)
        if d is not None:
            if d in self.env:
                return self.env[d]
            root = d.split(".")[0]
            if root not in self.env and root not in self.consts:
                return super()._ev(node)          # np.pi, math.pi, names of other modules: symbols
        if isinstance(node.value, ast.Name) and isinstance(self.env.get(node.value.id), Lst) and node.attr in LIST_METHODS:
            return BoundLst(self.env[node.value.id], node.attr)
        # the shape of a view is the view's, not that of what was stored into it
        view = isinstance(node.value, ast.Name) and node.attr in ("shape", "ndim", "T", "size")
        return self._attr_of(self._base(node.value) if view else self._ev(node.value), node.attr)

    def _attr_of(self, base, attr):
        if isinstance(base, Rec):
            return base.fields.get(attr, Unknown(f"field {attr}"))
        if not is_rat(base):
            return base if is_unknown(base) else Unknown(f"attribute of {type(base).__name__}")
        n_ = one_sym(base)
        if n_ and n_.split(".")[0] in self.imports.values() | self.imports.keys() | {"np", "la", "ode", "cb", "math"} and n_.split(".")[0] not in self.env:
            return F.sym(f"{n_}.{attr}")                # getattr(ode, "SolveUnc") is ode.SolveUnc
        if attr == "shape":
            return self.shape_value(base)
        if attr == "ndim":
            nd = self.ndim_of(base) if self.arr_of(base) is not None else None
            if nd is not None:
                return F.const(nd)
        return F.fn("attr:" + attr, base)

    # ------------------------------------------------------------------ comprehensions and iteration
    def _iter_spec(self, it):
        """('unroll', [values]) or ('sym', domain, element function of the index value)"""
        if isinstance(it, ast.Name) and isinstance(self.env.get(it.id), IterExpr):
            return self._iter_spec(self.env[it.id].node)
        if isinstance(it, ast.Call) and (dotted(it.func) in ("np.arange", "numpy.arange") or (isinstance(it.func, ast.Name) and it.func.id not in self.env)):
            nm = "range" if dotted(it.func) in ("np.arange", "numpy.arange") else it.func.id
            if nm == "range" and not it.keywords and 1 <= len(it.args) <= 3:
                vals = [self._ev(a) for a in it.args]
                if len(vals) == 3 and const_int(vals[2]) == 1:
                    vals = vals[:2]
                cs = [const_int(v) if is_rat(v) else None for v in vals]
                if all(c is not None for c in cs) and len(range(*cs)) <= MAX_UNROLL:
                    return ("unroll", [F.const(k) for k in range(*cs)])      # a literal trip count: every pass is evaluated (fresh objects per pass)
                if len(vals) == 2:
                    if const_int(vals[0]) != 0:
                        raise Unsupported("range with a start")
                    vals = vals[1:]
                if not is_rat(vals[0]):
                    raise Unsupported("range bound")
                return ("sym", vals[0], lambda i: i)
            if nm == "reversed" and len(it.args) == 1 and not it.keywords:
                sp = self._iter_spec(it.args[0])
                if sp[0] == "unroll":
                    return ("unroll", list(reversed(sp[1])))
                # every element once: the order of the passes is not modelled, only the pairing inside zip / enumerate (4th item: walked backwards)
                return ("sym", sp[1], sp[2], not (len(sp) > 3 and sp[3]))
            if nm == "map" and len(it.args) == 2 and not it.keywords:
                fv = self.ev(it.args[0])
                sp = self._iter_spec(it.args[1])
                if sp[0] == "unroll":
                    return ("unroll", [self._apply(fv, [x], it) for x in sp[1]])
                return ("sym", sp[1], lambda i, g=sp[2]: self._apply(fv, [g(i)], it), len(sp) > 3 and sp[3])
            if nm == "enumerate" and len(it.args) == 1 and not it.keywords:
                sp = self._iter_spec(it.args[0])
                if sp[0] == "unroll":
                    return ("unroll", [(F.const(k), v) for k, v in enumerate(sp[1])])
                sp = self._forwards(sp)
                return ("sym", sp[1], lambda i, f=sp[2]: (i, f(i)))
            if nm == "zip" and it.args and not it.keywords:
                sps = []
                for a in it.args:
                    if isinstance(a, ast.Starred):              # zip(x, *views)
                        seq = self._as_seq(self._ev(a.value))
                        if seq is None:
                            raise Unsupported(f"iteration over *{ast.unparse(a.value)[:40]}")
                        sps.extend(self._spec_of_value(v, a) for v in seq)
                    else:
                        sps.append(self._iter_spec(a))
                if all(s[0] == "unroll" for s in sps):
                    return ("unroll", [tuple(x) for x in zip(*[s[1] for s in sps])])
                if all(s[0] == "sym" for s in sps):
                    back = {len(s_) > 3 and s_[3] for s_ in sps}
                    if len(back) > 1:
                        sps = [self._forwards(s_) for s_ in sps]            # some operands reversed, some not: pair by position
                    back = len(back) == 1 and back.pop()
                    # zip stops with the shortest operand: one trip count when the lengths are the same value or were checked equal by a guard
                    dom = sps[0][1] if all(self.known_equal(s[1], sps[0][1]) for s in sps) else F.fn("min", *sorted((s[1] for s in sps), key=repr))
                    return ("sym", dom, lambda i, fs=[s[2] for s in sps]: tuple(f(i) for f in fs), bool(back))
                raise Unsupported("zip of sequences of different kinds")
        return self._spec_of_value(self._ev(it), it)

    @staticmethod
    def _forwards(sp):
        """a symbolic iteration walked backwards as a forward one: element i is item n - 1 - i"""
        if sp[0] == "sym" and len(sp) > 3 and sp[3]:
            return ("sym", sp[1], lambda i, f=sp[2], n=sp[1]: f(n - F.const(1) - i), False)
        return sp

    def _spec_of_value(self, v, it):
        seq = self._as_seq(v)
        if seq is not None:
            return ("unroll", seq)
        if not is_rat(v):
            raise Unsupported(f"iteration over {ast.unparse(it)[:40]}")
        n_ = one_sym(v)
        if n_ and n_.startswith("comp#") and int(n_[5:]) in self.keyed:
            return ("sym", self.comps[int(n_[5:])][1], lambda i: i)       # the keys of {i: ...}
        dom = self.length(v)
        if not is_rat(dom):
            raise Unsupported("length of the iterated value")
        return ("sym", dom, lambda i, v=v, it=it: self.element(v, i, it))

    def _new_loop(self, domain, node):
        lid = len(self.loops) + 1
        lp = Loop(lid, domain, node, tuple(self.loop_stack))
        self.loops[lid] = lp
        return lp

    def _comp(self, node):
        if len(node.generators) != 1 or node.generators[0].ifs or node.generators[0].is_async:
            return Unknown("comprehension with filters or several generators")
        g = node.generators[0]
        try:
            sp = self._iter_spec(g.iter)
        except Unsupported as e:
            return Unknown(str(e))
        saved = self.env
        self.env = dict(saved)
        try:
            if sp[0] == "unroll":
                if isinstance(node, ast.DictComp):
                    r = Rec("dict")
                    for x in sp[1]:
                        self._assign(g.target, x, node)
                        k = str_const(self.ev(node.key))
                        if k is None:
                            return Unknown("dict comprehension with computed keys")
                        r.fields[k] = self.ev(node.value)
                    return r
                out = []
                for x in sp[1]:
                    self._assign(g.target, x, node)
                    out.append(self.ev(node.elt))
                return tuple(out)
            lp = self._new_loop(sp[1], node)
            self.loop_stack.append(lp.id)
            try:
                self._assign(g.target, sp[2](lp.sym), node)
                if isinstance(node, ast.DictComp):
                    if not same(self.ev(node.key), lp.sym):
                        return Unknown("dict comprehension over a symbolic range with keys that are not the index")
                    elt = self.ev(node.value)
                else:
                    elt = self.ev(node.elt)
            finally:
                self.loop_stack.pop()
            if not is_rat(elt):
                return Unknown("comprehension element")
            cid = len(self.comps) + 1
            self.comps[cid] = (lp.name, sp[1], elt)
            if isinstance(node, ast.DictComp):
                self.keyed.add(cid)                 # {i: f(i) for i ...}: iterating it gives the indices
            return F.sym(f"comp#{cid}")
        finally:
            self.env = saved

    # ------------------------------------------------------------------ calls
    def _call(self, node):
        name = dotted(node.func)
        # user functions: closures and functions of the same module
        target = None
        alias_recv = None
        if isinstance(node.func, ast.Name):
            v = self.env.get(node.func.id)
            if v is None and node.func.id not in self.env and node.func.id not in self.userfuncs and node.func.id in self.consts:
                v = self._const(node.func.id)           # a module-level alias: `_solve = la.solve`
            if isinstance(v, BoundLst):
                return self._lst_method(v.lst, v.meth, [self.ev(a) for a in node.args], {k.arg: None for k in node.keywords})
            if isinstance(v, Closure):
                target = v
            elif node.func.id not in self.env and node.func.id in self.userfuncs:
                target = Closure(self.userfuncs[node.func.id], None)
            elif is_rat(v):
                # a name bound to a callable: `solve = la.solve`, `build = ode.SolveUnc`, `run = fs.fsolve` - the call is the call of its value
                n_ = one_sym(v)
                u_ = unfn(v)
                if n_ and not n_.startswith(("@", "%", "?", "'", '"')):
                    name = n_
                    if n_ in self.userfuncs:
                        target = Closure(self.userfuncs[n_], None)
                elif u_ and u_[0].startswith("attr:") and len(u_[1]) == 1:
                    name, alias_recv = "." + u_[0][5:], u_[1][0]
        elif isinstance(node.func, ast.Lambda):
            target = self._lambda(node.func)
        elif isinstance(node.func, ast.Attribute) and isinstance(node.func.value, ast.Name) and isinstance(self.env.get(node.func.value.id), Lst):
            l = self.env[node.func.value.id]
            if node.func.attr in LIST_METHODS:
                return self._lst_method(l, node.func.attr, [self.ev(a) for a in node.args], {k.arg: None for k in node.keywords})
        elif not isinstance(node.func, (ast.Name, ast.Attribute)):
            fv = self.ev(node.func)                             # {True: f, False: g}[test](), table[key](...)
            if isinstance(fv, Closure):
                target = fv
            elif one_sym(fv) in self.userfuncs:
                target = Closure(self.userfuncs[one_sym(fv)], None)
            elif one_sym(fv) and not one_sym(fv).startswith(("@", "%", "?", "'", '"')):
                name = one_sym(fv)
            elif is_rat(fv) and unfn(fv) and unfn(fv)[0].startswith("attr:") and len(unfn(fv)[1]) == 1:
                name, alias_recv = "." + unfn(fv)[0][5:], unfn(fv)[1][0]          # getattr(fs, "fsolve")(...)
        def arg(x):
            # a function of this module / a closure receives references: a view stays a view (it is read when the callee reads it)
            if target is None:
                return self.ev(x)
            try:
                return self._base(x)
            except Unsupported as e:
                return Unknown(str(e))

        pos, kws = [], {}
        for a in node.args:
            if isinstance(a, ast.Starred):
                v = self.ev(a.value)
                seq = self._as_seq(v)
                if seq is not None:
                    pos.extend(seq)
                else:
                    pos.append(Unknown("*args"))
            else:
                pos.append(arg(a))
        for k in node.keywords:
            v = arg(k.value)
            if k.arg is None:
                if isinstance(v, Rec):
                    kws.update(v.fields)
                else:
                    kws["**"] = Unknown("**kwargs")
            else:
                kws[k.arg] = v
        if target is not None:
            return self._invoke(target, pos, kws, node)
        recv = alias_recv
        if isinstance(node.func, ast.Attribute):
            root = name.split(".")[0] if name else None
            if name is None or root in self.env or root in self.consts:
                recv = self.ev(node.func.value)
                name = "." + node.func.attr
                if isinstance(recv, Closure):
                    return Unknown("attribute of a function")
        elif name is None:
            return Unknown("call of a computed callable")
        if name and recv is None and not name.startswith("."):
            head, _, tail = name.partition(".")
            if head in self.imports and head not in self.env:
                name = self.imports[head] + ("." + tail if tail else "")        # the module's own alias -> the spelling of the tables
        if name in self.sigs and kws and "**" not in kws:
            # keywords of a function of this module are put in the order of its signature: f(x, freq=w) is f(x, w)
            params = self.sigs[name]
            while len(pos) < len(params) and params[len(pos)] in kws:
                pos.append(kws.pop(params[len(pos)]))
        if name in self.sigs and not kws:
            # trailing arguments that spell out the default are dropped: calcAM(S, freq, None) is calcAM(S, freq)
            params, dflt = self.sigs[name], self.sig_defaults[name]
            while pos and len(pos) <= len(params) and params[len(pos) - 1] in dflt and same(pos[-1], dflt[params[len(pos) - 1]]):
                pos.pop()
        r = self._model(name, recv, pos, kws, node)
        if r is not NotImplemented:
            return r
        e = self._log("call", name=name, recv=recv, pos=pos, kw=kws, node=node, value=None)
        args = []
        if recv is not None:
            args.append(recv)
        args.extend(pos)
        flat = []
        for v in args:
            if isinstance(v, Rec):
                v = v.sym
            if isinstance(v, tuple):
                if not all(is_rat(x) for x in v):
                    return Unknown("nested tuple argument")
                v = F.fn("tuple", *v)
            if not is_rat(v):
                return v if is_unknown(v) else Unknown("argument is not a value")
            flat.append(v)
        for k, v in kws.items():
            if isinstance(v, Rec):
                v = v.sym
            if isinstance(v, tuple) and all(is_rat(x) for x in v):
                v = F.fn("tuple", *v)
            if not is_rat(v):
                return Unknown(f"keyword {k}")
            flat.append(F.fn("kw:" + k, v))
        val = F.fn("call:" + name, *flat)
        if e is not None:
            e["value"] = val
        return val

    def _apply(self, fv, pos, node):
        """value of calling the callable value `fv` on argument values (map, sorted keys ...)"""
        if isinstance(fv, Closure):
            return self._invoke(fv, list(pos), {}, node)
        n_ = one_sym(fv) if is_rat(fv) else None
        if n_ and n_ in self.userfuncs:
            return self._invoke(Closure(self.userfuncs[n_], None), list(pos), {}, node)
        if n_ and not n_.startswith(("@", "%", "?", "'", '"')):
            head, _, tail = n_.partition(".")
            if head in self.imports and head not in self.env:
                n_ = self.imports[head] + ("." + tail if tail else "")
            r = self._model(n_, None, list(pos), {}, node)
            if r is not NotImplemented:
                return r
            if all(is_rat(p_) for p_ in pos):
                val = F.fn("call:" + n_, *pos)
                self._log("call", name=n_, recv=None, pos=list(pos), kw={}, node=node, value=val)
                return val
        return Unknown("call of a computed callable")

    def _lambda(self, node):
        fn = ast.FunctionDef(name="<lambda>", args=node.args, body=[ast.copy_location(ast.Return(value=node.body), node)], decorator_list=[], returns=None,
                             type_comment=None)
        ast.copy_location(fn, node)
        return Closure(fn, self.env, self.frame)

    def _model(self, name, recv, pos, kws, node):
        if name in SOLVE and kws and set(kws) <= {"a", "b"} and len(pos) + len(kws) == 2:
            pos, kws = list(pos) + [kws[k] for k in ("a", "b")[len(pos):]], {}
        if name in INV and kws and set(kws) == {"a"} and not pos:
            pos, kws = [kws["a"]], {}
        if name in UFUNC2 and len(pos) == 2 and not kws and all(is_rat(p_) for p_ in pos):
            a_, b_ = pos
            op = UFUNC2[name]
            if op == "/" and b_.is_zero():
                return Unknown("division by zero")
            return a_ + b_ if op == "+" else a_ - b_ if op == "-" else a_ * b_ if op == "*" else a_ / b_
        if name in ("np.negative", "numpy.negative") and len(pos) == 1 and not kws and is_rat(pos[0]):
            return -pos[0]
        if name in ("np.square", "numpy.square") and len(pos) == 1 and not kws and is_rat(pos[0]):
            return pos[0] * pos[0]
        if name in ("np.ndim", "np.shape", "np.size") and len(pos) == 1 and not kws:
            return self._attr_of(pos[0], name[3:])
        if recv is not None and is_rat(recv) and name == ".transpose" and not kws:
            if not pos:
                return F.fn("attr:T", recv)
            ax = pos[0] if len(pos) == 1 and isinstance(pos[0], tuple) else tuple(pos)
            p_ = self._perm("np.transpose", [recv, ax], {})
            if p_ is not None:
                return p_
        if recv is not None and is_rat(recv) and name == ".swapaxes" and len(pos) == 2 and not kws:
            p_ = self._perm("np.swapaxes", [recv] + list(pos), {})
            if p_ is not None:
                return p_
        if recv is not None and name == ".fill" and len(pos) == 1 and not kws and self.arr_of(recv) is not None and self.arr_of(recv).shape is not None:
            a_ = self.arr_of(recv)
            self._log("store", arr=a_.id, base=recv, sel=[ALL] * len(a_.shape), ix=None, value=pos[0], node=node)
            return NONE

        if name in ALLOC_CTORS or name in ("np.eye", "np.identity") or name in LIKE_CTORS:
            return self._alloc(name, pos, kws, node)
        if recv is not None and name == ".copy" and not pos and self.arr_of(recv) is not None:
            src = self.arr_of(recv)
            clean = not self.stores_of(src.id)
            return self._new_arr("copy", src.shape, src.fill if clean else None, node, like=src.like if src.shape is None else None).sym
        copied = recv if recv is not None and name in (".copy", ".flatten") and not pos else (pos[0] if name in ("np.array", "np.copy") and len(pos) == 1 else None)
        if copied is not None and self._is_view(copied) is not None:
            # a copy of some cells of an array object: a new object (stores into it do not reach the original) that reads as what was copied
            a_ = self._new_arr("copy", None, None, node, like=copied)
            a_.init = self._deref(copied)
            return a_.sym
        if name in OPERATOR2 and len(pos) == 2 and not kws and all(is_rat(p_) for p_ in pos):
            name, pos = OPERATOR2[name], pos
            return self._model(name, None, pos, kws, node)
        if name in ("functools.reduce", "reduce") and 2 <= len(pos) <= 3 and not kws and self._as_seq(pos[1]) is not None:
            items = self._as_seq(pos[1])
            acc_ = pos[2] if len(pos) == 3 else (items[0] if items else Unknown("reduce of an empty sequence"))
            for x in (items if len(pos) == 3 else items[1:]):
                acc_ = self._apply(pos[0], [acc_, x], node)
            return acc_
        if name == "sum" and 1 <= len(pos) <= 2 and not kws and self._as_seq(pos[0]) is not None and all(is_rat(x) for x in self._as_seq(pos[0])):
            tot = pos[1] if len(pos) == 2 and is_rat(pos[1]) else F.const(0)
            for x in self._as_seq(pos[0]):
                tot = tot + x
            return tot
        if name in ("operator.neg", "neg") and len(pos) == 1 and not kws and is_rat(pos[0]):
            return -pos[0]
        if name in ("operator.attrgetter", "attrgetter") and len(pos) == 1 and not kws and str_const(pos[0]) is not None and str_const(pos[0]).isidentifier():
            return self._lambda(ast.parse(f"lambda _x: _x.{str_const(pos[0])}", mode="eval").body)
        if name in ("functools.partial", "partial") and isinstance(node, ast.Call) and node.args and not any(isinstance(a, ast.Starred) for a in node.args) \
                and all(k.arg for k in node.keywords):
            # partial(f, a, k=v)(x, ...) is f(a, x, ..., k=v): a lambda over the written argument expressions (evaluated when called)
            call = ast.Call(func=node.args[0], args=list(node.args[1:]) + [ast.Starred(value=ast.Name(id="_a", ctx=ast.Load()), ctx=ast.Load())],
                            keywords=list(node.keywords) + [ast.keyword(arg=None, value=ast.Name(id="_k", ctx=ast.Load()))])
            lam = ast.Lambda(args=ast.arguments(posonlyargs=[], args=[], vararg=ast.arg(arg="_a"), kwonlyargs=[], kw_defaults=[], kwarg=ast.arg(arg="_k"),
                                                defaults=[]), body=call)
            ast.copy_location(lam, node)
            ast.fix_missing_locations(lam)
            return self._lambda(lam)
        if name in ("operator.itemgetter", "itemgetter") and pos and not kws and all(const_int(x) is not None or str_const(x) is not None for x in pos):
            keys = [repr(const_int(x)) if const_int(x) is not None else repr(str_const(x)) for x in pos]
            body = f"_x[{keys[0]}]" if len(keys) == 1 else "(" + ", ".join(f"_x[{k}]" for k in keys) + ",)"
            return self._lambda(ast.parse(f"lambda _x: {body}", mode="eval").body)
        if name == "len" and len(pos) == 1 and not kws:
            return self.length(pos[0])
        if name == "getattr" and len(pos) == 2 and not kws and str_const(pos[1]) is not None:
            return self._attr_of(pos[0], str_const(pos[1]))
        if name == "setattr" and len(pos) == 3 and not kws and str_const(pos[1]) is not None and isinstance(pos[0], Rec):
            pos[0].fields[str_const(pos[1])] = pos[2]
            return NONE
        if name == "zip" and pos and not kws:
            seqs = [self._as_seq(p_) for p_ in pos]
            if all(q is not None for q in seqs):
                return tuple(tuple(x) for x in zip(*seqs))
        if name == "enumerate" and len(pos) == 1 and not kws and self._as_seq(pos[0]) is not None:
            return tuple((F.const(i), x) for i, x in enumerate(self._as_seq(pos[0])))
        if name in ("tuple", "list") and len(pos) == 1 and not kws and self._as_seq(pos[0]) is not None:
            return tuple(self._as_seq(pos[0]))
        if name in ("tuple", "list") and not pos and not kws:
            return ()
        if name in ("any", "all") and len(pos) == 1 and not kws and isinstance(pos[0], tuple) and all(is_rat(x) for x in pos[0]):
            if not pos[0]:
                return F.sym("False" if name == "any" else "True")
            return pos[0][0] if len(pos[0]) == 1 else F.fn("bool:Or" if name == "any" else "bool:And", *pos[0])
        if name == "dict" and len(pos) == 1 and (isinstance(pos[0], Rec) or self._as_seq(pos[0]) is not None):
            r = Rec("dict", pos[0].fields if isinstance(pos[0], Rec) else {})
            for item in (() if isinstance(pos[0], Rec) else self._as_seq(pos[0])):
                k = str_const(item[0]) if isinstance(item, tuple) and len(item) == 2 else None
                if k is None:
                    return Unknown("dict from pairs with computed keys")
                r.fields[k] = item[1]
            r.fields.update(kws)
            return r
        n_ = one_sym(recv) if recv is not None and is_rat(recv) else None
        if n_ and n_.startswith("comp#") and int(n_[5:]) in self.keyed and not pos and name in (".items", ".values", ".keys"):
            var, dom, elt = self.comps[int(n_[5:])]
            lp = self._new_loop(dom, node)
            cid = len(self.comps) + 1
            if name == ".keys":
                return recv
            self.comps[cid] = (lp.name, dom, elt.subs({var: lp.sym}) if name == ".values" else F.fn("tuple", lp.sym, elt.subs({var: lp.sym})))
            return F.sym(f"comp#{cid}")
        if recv is not None and isinstance(recv, Rec) and recv.kind == "dict":
            if name == ".items" and not pos:
                return tuple((F.sym(repr(k)), v) for k, v in recv.fields.items())
            if name == ".keys" and not pos:
                return tuple(F.sym(repr(k)) for k in recv.fields)
            if name == ".values" and not pos:
                return tuple(recv.fields.values())
            if name in (".get", ".pop", ".setdefault") and pos and str_const(pos[0]) is not None:
                k = str_const(pos[0])
                if k in recv.fields:
                    return recv.fields.pop(k) if name == ".pop" else recv.fields[k]
                if name == ".setdefault" and len(pos) == 2:
                    recv.fields[k] = pos[1]
                    return pos[1]
                return pos[1] if len(pos) > 1 else NONE
            if name == ".copy" and not pos:
                return Rec("dict", recv.fields)
        if name == "dict.fromkeys" and 1 <= len(pos) <= 2 and not kws and self._as_seq(pos[0]) is not None:
            keys = [str_const(x) if is_rat(x) else None for x in self._as_seq(pos[0])]
            if all(k is not None for k in keys):
                return Rec("dict", {k: (pos[1] if len(pos) == 2 else NONE) for k in keys})
        if name == "vars" and len(pos) == 1 and isinstance(pos[0], Rec):
            return pos[0]
        if recv is not None and name == ".update" and isinstance(recv, Rec):
            for p in pos:
                if isinstance(p, Rec):
                    recv.fields.update(p.fields)
                else:
                    return Unknown("update from a non-record")
            recv.fields.update(kws)
            return NONE
        if name in ("SimpleNamespace", "types.SimpleNamespace") and not pos:
            self._log("call", name=name, recv=None, pos=pos, kw=kws, node=node, value=None)
            return Rec("ns", kws)
        if name == "dict" and not pos:
            return Rec("dict", kws)
        if name in DOT and len(pos) == 2 and not kws and all(is_rat(p) for p in pos):
            return pos[0] * pos[1]
        if recv is not None and name == ".dot" and len(pos) == 1 and is_rat(recv) and is_rat(pos[0]):
            return recv * pos[0]
        if name in SOLVE and len(pos) == 2 and all(is_rat(p) for p in pos):
            self._log("call", name=name, recv=None, pos=pos, kw=kws, node=node, value=None)
            if pos[0].is_zero():
                return Unknown("division by zero")
            return pos[1] / pos[0]
        if name in INV and len(pos) == 1 and is_rat(pos[0]) and not pos[0].is_zero():
            self._log("call", name=name, recv=None, pos=pos, kw=kws, node=node, value=None)
            return F.const(1) / pos[0]
        if name == "np.transpose" and len(pos) == 1 and not kws and is_rat(pos[0]):
            return F.fn("attr:T", pos[0])
        if name == "np.rollaxis" and pos and is_rat(pos[0]) and self.ndim_of(pos[0]) is not None:
            nd_ = self.ndim_of(pos[0])
            ax = const_int(pos[1] if len(pos) > 1 else kws.get("axis"))
            st_ = const_int(pos[2]) if len(pos) > 2 else (const_int(kws["start"]) if "start" in kws else 0)
            if ax is not None and st_ is not None:
                ax, st_ = ax % nd_, st_ % (nd_ + 1) if st_ < 0 else st_
                dest = st_ - 1 if st_ > ax else st_
                p = self._perm("np.moveaxis", [pos[0], F.const(ax), F.const(dest)], {})
                if p is not None:
                    return p
        if name in ("np.transpose", "np.moveaxis", "np.swapaxes") and pos and is_rat(pos[0]):
            p = self._perm(name, pos, kws)
            if p is not None:
                return p
        if name in IDENT_CALLS and pos and is_rat(pos[0]):
            if self.tag_conversions and self.arr_of(pos[0]) is None and not (unfn(pos[0]) and unfn(pos[0])[0] == "arr"):
                return F.fn("arr", pos[0])           # array_like -> ndarray: kept visible (idempotent; an array object stays itself)
            return pos[0]
        if recv is not None and name[1:] in IDENT_METHODS and is_rat(recv) and not pos:
            return recv
        if name in self.funcs and len(pos) == 1 and is_rat(pos[0]) and not kws:
            return self.funcs[name](pos[0])
        return NotImplemented

    def _as_seq(self, v):
        """the items of a value that is a sequence of known length: a tuple, a string literal, the fields of a dict"""
        if isinstance(v, tuple):
            return list(v)
        if isinstance(v, Rec) and v.kind == "dict":
            return [F.sym(repr(k)) for k in v.fields]
        s_ = str_const(v) if is_rat(v) else None
        if s_ is not None:
            return [F.sym(repr(c)) for c in s_]
        return None

    def _perm(self, name, pos, kws):
        nd = self.ndim_of(pos[0])
        if nd is None:
            return None
        if name == "np.transpose":
            ax = pos[1] if len(pos) > 1 else kws.get("axes")
            if not isinstance(ax, tuple) or len(ax) != nd:
                return None
            perm = [const_int(a) for a in ax]
        else:
            keys = ("source", "destination") if name == "np.moveaxis" else ("axis1", "axis2")
            a = pos[1] if len(pos) > 1 else kws.get(keys[0])
            b = pos[2] if len(pos) > 2 else kws.get(keys[1])
            a, b = const_int(a), const_int(b)
            if a is None or b is None:
                return None
            a, b = a % nd, b % nd
            perm = list(range(nd))
            if name == "np.swapaxes":
                perm[a], perm[b] = perm[b], perm[a]
            else:
                perm.remove(a)
                perm.insert(b, a)
        if any(p is None for p in perm):
            return None
        perm = [p % nd for p in perm]
        base = pos[0]
        u = unfn(base)
        if u and u[0] == "perm":
            inner = [const_int(p) for p in u[1][1:]]
            perm = [inner[p] for p in perm]
            base = u[1][0]
        if perm == list(range(nd)):
            return base
        return F.fn("perm", base, *[F.const(p) for p in perm])

    def _new_arr(self, ctor, shape, fill, node, like=None):
        aid = len(self.arrs) + 1
        self.seq += 1
        a = Arr(aid, ctor, shape, fill, node, tuple(self.loop_stack), self.seq, like)
        self.arrs[aid] = a
        if not self.quiet:
            self.events.append(dict(kind="alloc", seq=self.seq, loops=tuple(self.loop_stack), maybe=self.maybe > 0, arr=aid, node=node))
        return a

    def _alloc(self, name, pos, kws, node):
        if name in LIKE_CTORS:
            src = pos[0] if pos else None
            if not is_rat(src):
                return Unknown("like of a non-value")
            sh = self.shape_of(src)
            return self._new_arr(name, tuple(sh) if sh is not None else None, LIKE_CTORS[name], node, like=src).sym
        if name in ("np.eye", "np.identity"):
            n = pos[0] if pos else kws.get("N", kws.get("n"))
            m = pos[1] if len(pos) > 1 else kws.get("M", n)
            if not is_rat(n) or not is_rat(m):
                return Unknown("eye size")
            return self._new_arr("np.eye", (n, m), None, node).sym
        sh = pos[0] if pos else kws.get("shape")
        fill = ALLOC_CTORS[name]
        if name in ("np.full", "numpy.full"):
            fv = pos[1] if len(pos) > 1 else kws.get("fill_value")
            fill = const_int(fv) if is_rat(fv) else None
        like = None
        if isinstance(sh, tuple):
            if not all(is_rat(x) for x in sh):
                return Unknown("shape")
            shape = tuple(sh)
        elif is_rat(sh):
            u = unfn(sh)
            if u and u[0] == "attr:shape":
                shape, like = None, u[1][0]
            else:
                shape = (sh,)
        else:
            return Unknown("shape")
        return self._new_arr(name, shape, fill, node, like=like).sym

    def _invoke(self, target, pos, kws, node):
        fn = target.node
        if self.depth >= MAX_DEPTH:
            raise Unsupported(f"call depth at {fn.name}")
        a = fn.args
        if "**" in kws:
            return Unknown(f"call of {fn.name} with ** of a non-record")
        params = [x.arg for x in a.posonlyargs + a.args]
        if len(pos) > len(params) and not a.vararg:
            return Unknown(f"too many arguments for {fn.name}")
        env = {}
        if target.env is not None:
            env = dict(self.env if target.frame is self.frame else target.env)     # late binding: the defining frame as it is now
        bound = {}
        for p_, v in zip(params, pos):
            bound[p_] = v
        if a.vararg:
            bound[a.vararg.arg] = tuple(pos[len(params):])                          # def f(x, *rest)
        kwonly = [x.arg for x in a.kwonlyargs]
        extra = {}
        for k, v in kws.items():
            if k not in params and k not in kwonly:
                if not a.kwarg:
                    return Unknown(f"unexpected keyword {k} for {fn.name}")
                extra[k] = v
            else:
                bound[k] = v
        if a.kwarg:
            bound[a.kwarg.arg] = Rec("dict", extra)
        saved = (self.env, self.returns, self.done, self.maybe_returns, self.raised)
        dflt = dict(zip(params[::-1], (a.defaults or [])[::-1]))
        dflt.update({p_: d for p_, d in zip(kwonly, a.kw_defaults) if d is not None})
        for p_ in params + kwonly:
            if p_ not in bound:
                if p_ not in dflt:
                    return Unknown(f"missing argument {p_} for {fn.name}")
                self.env = {}
                bound[p_] = self.ev(dflt[p_])
                self.env = saved[0]
        env.update(bound)
        self.env, self.returns, self.done, self.maybe_returns, self.raised = env, [], False, [], False
        self.depth += 1
        frame, self.frame = self.frame, object()
        outer = (self.exit, self.loop_depth, self.maybe_base, self.cont_raises, self.unbound)
        self.exit, self.loop_depth, self.maybe_base, self.cont_raises = None, 0, self.maybe, False       # the callee's own returns are definite for the callee
        # the callee's own locals; a closure also sees the (still unbound) locals of the frame that defined it
        self.unbound = (local_names(fn) - set(bound)) | ((self.unbound - set(bound)) if target.frame is frame else set())
        npath = len(self.path)
        try:
            self.run(fn.body)
            rets, mrets = self.returns, self.maybe_returns
        finally:
            del self.path[npath:]
            self.depth -= 1
            self.frame = frame
            self.exit, self.loop_depth, self.maybe_base, self.cont_raises, self.unbound = outer
            self.env, self.returns, self.done, self.maybe_returns, self.raised = saved
        if mrets:
            # returns under tests nobody decides (and that could not be merged into one value): some object the rule knows nothing about
            self.seq += 1
            return F.sym(f"?{self.seq}:{fn.name}()")
        if not rets:
            return NONE
        v = rets[-1][0]
        return NONE if v is None else v

    # ------------------------------------------------------------------ statements
    def stmt(self, st):
        if self.done:
            return
        if isinstance(st, (ast.FunctionDef, ast.AsyncFunctionDef)):
            self.env[st.name] = Closure(st, self.env, self.frame)
            return
        if isinstance(st, ast.Expr):
            if isinstance(st.value, ast.Call):
                self.ev(st.value)
            return
        if isinstance(st, ast.Assign) and len(st.targets) == 1 and isinstance(st.targets[0], ast.Name) and isinstance(st.value, ast.Call) \
                and isinstance(st.value.func, ast.Name) and st.value.func.id in ("zip", "enumerate", "reversed") and st.value.func.id not in self.env:
            self.env[st.targets[0].id] = IterExpr(st.value)                # pairs = zip(...): walked by the loop that uses it
            return
        if isinstance(st, ast.Assign) and len(st.targets) == 1 and isinstance(st.targets[0], ast.Name) and _empty_list(st.value):
            self.env[st.targets[0].id] = Lst(tuple(self.loop_stack))        # `acc = []`: a list to be filled by append
            return
        if isinstance(st, ast.Return):
            v = self.ev(st.value) if st.value is not None else None
            (self.maybe_returns if self.maybe > self.maybe_base else self.returns).append((v, st))
            self.done, self.exit = True, "return"
            return
        if isinstance(st, ast.Raise):
            self.done, self.exit = True, "raise"
            self.raised = True
            return
        if isinstance(st, ast.Continue):
            if not self.loop_depth:
                raise Unsupported("continue outside a loop")
            self.done, self.exit = True, "continue"
            return
        if isinstance(st, ast.If):
            return self._if(st)
        if isinstance(st, ast.For):
            return self._for(st)
        if isinstance(st, ast.While):
            return self._while(st)
        if isinstance(st, ast.With):
            return self._with(st)
        if isinstance(st, ast.Try):
            return self._try(st)
        if isinstance(st, ast.Break):
            raise Unsupported("break")
        if isinstance(st, ast.AugAssign) and isinstance(st.target, ast.Subscript):
            cur = self.ev(_load(st.target))
            v = self.ev(st.value)
            nv = Unknown("augmented store")
            if is_rat(cur) and is_rat(v):
                try:
                    nv = self._ev(ast.BinOp(left=_Val(cur), op=st.op, right=_Val(v)))
                except Unsupported as e:
                    nv = Unknown(str(e))
            self._assign(st.target, nv, st)
            return
        return super(AutoEvaluator, self).stmt(st)

    def _assign(self, target, v, st, aug=False):
        if isinstance(target, ast.Name):
            self.env[target.id] = v
            return
        if isinstance(target, (ast.Tuple, ast.List)):
            n = len(target.elts)
            if isinstance(v, tuple) and len(v) == n:
                for t, x in zip(target.elts, v):
                    self._assign(t, x, st)
            elif is_rat(v) and not any(isinstance(t, ast.Starred) for t in target.elts[:-1]):
                for i, t in enumerate(target.elts):
                    if isinstance(t, ast.Starred):          # m, b, k, *rest = S: the rest is S[3:]
                        self._assign(t.value, F.fn("idx", v, F.fn("slice", F.const(i), NONE, NONE)), st)
                    else:
                        self._assign(t, self._item(v, i), st)
            elif isinstance(v, tuple) and sum(isinstance(t, ast.Starred) for t in target.elts) == 1 and len(v) >= n - 1:
                k = next(i for i, t in enumerate(target.elts) if isinstance(t, ast.Starred))
                tail = n - 1 - k
                for t, x in zip(target.elts[:k], v[:k]):
                    self._assign(t, x, st)
                self._assign(target.elts[k].value, tuple(v[k:len(v) - tail]), st)
                for t, x in zip(target.elts[k + 1:], v[len(v) - tail:]):
                    self._assign(t, x, st)
            else:
                for t in target.elts:
                    self._assign(t, Unknown("tuple unpacking of a non-tuple"), st)
            return
        if isinstance(target, ast.Subscript):
            try:
                base = self._base(target.value)
            except Unsupported as e:
                base = Unknown(str(e))
            if isinstance(base, Rec):
                k = str_const(self.ev(target.slice))
                if k is not None:
                    base.fields[k] = v
                return
            if is_rat(base):
                try:
                    self._select(base, self._entries(target.slice), st, True, value=v)
                except Unsupported as e:
                    a = self.arr_of(base)
                    self._log("store", arr=a.id if a else None, base=base, sel=None, ix=Unknown(str(e)), value=v, node=st)
            return
        if isinstance(target, ast.Attribute):
            base = self.ev(target.value)
            if isinstance(base, Rec):
                base.fields[target.attr] = v        # ns.F = ...
                return
            d = dotted(target)
            if d:
                self.env[d] = v
            return

    def only_raises(self, stmts):
        """every path through the statements ends in `raise` (directly, or by calling a helper / closure whose body only raises)"""
        if not stmts:
            return False
        last = stmts[-1]
        if isinstance(last, ast.Raise):
            return True
        if isinstance(last, ast.If):
            return self.only_raises(last.body) and self.only_raises(last.orelse)
        if isinstance(last, ast.Expr) and isinstance(last.value, ast.Call) and isinstance(last.value.func, ast.Name):
            v = self.env.get(last.value.func.id)
            fn = v.node if isinstance(v, Closure) else (self.userfuncs.get(last.value.func.id) if last.value.func.id not in self.env else None)
            if fn is not None and fn not in self._raise_stack:
                self._raise_stack.append(fn)
                try:
                    return self.only_raises(fn.body)
                finally:
                    self._raise_stack.pop()
        return False

    def _never_none(self, v):
        u = unfn(v)
        if not (u and u[0] in ("cmp:Is", "cmp:Eq") and len(u[1]) == 2):
            return None
        a, b = u[1]
        x = b if same(a, NONE) else (a if same(b, NONE) else None)
        if x is None:
            return None
        n_ = one_sym(x)
        if self.arr_of(x) is not None:
            return False                                    # an array object is not None
        if n_ and "." in n_ and n_.split(".")[0] not in self.env and n_.split(".")[0] in set(self.imports) | set(self.imports.values()) | {"np", "la", "ode", "cb", "math"}:
            return False                                    # la.inv, ode.SolveUnc ...: attributes of imported modules
        return None

    def decide(self, test):
        r = super().decide(test)
        if r is None:
            self.quiet += 1
            try:
                v = self.ev(test)
            finally:
                self.quiet -= 1
            r = truth(v, self._never_none)
        return r

    def run(self, stmts):
        outer = self.cont_raises
        try:
            for i, st in enumerate(stmts):
                if self.done:
                    break
                rest = list(stmts[i + 1:])
                if isinstance(st, ast.If):
                    # what follows the `if` inside this block, else whatever follows the block: does it only raise?
                    self.cont_raises = self.only_raises(rest) if rest else outer
                    if rest:
                        # `if t: A (leaves)` followed by R  is  `if t: A else: R` - else-after-return removed or added, guard clauses
                        e1, e2 = always_ends(st.body) or self.only_raises(st.body), always_ends(st.orelse) or self.only_raises(st.orelse)
                        if e1 != e2:
                            self.cont_raises = outer
                            self._if(st, st.body if e1 else st.body + rest, st.orelse + rest if e1 else st.orelse)
                            return
                    if self._if(st, rest=rest):
                        return
                    continue
                self.cont_raises = False
                self.stmt(st)
        finally:
            self.cont_raises = outer

    def _item(self, v, i):
        """item i of a value that is unpacked: `m, b, k = S[:3]` reads S[0], S[1], S[2]"""
        u = unfn(v)
        if u and u[0] == "idx":
            w = unfn(u[1][1])
            if w and w[0] == "slice":
                lo, step = w[1][0], w[1][2]
                lo = 0 if same(lo, NONE) else const_int(lo)
                if lo is not None and lo >= 0 and (same(step, NONE) or const_int(step) == 1):
                    return F.fn("idx", u[1][0], F.const(lo + i))
        n = one_sym(v)
        if n and n.startswith("comp#"):
            return self.element(v, F.const(i), None)
        return F.fn("idx", v, F.const(i))

    def _merge_val(self, t, a, b):
        if a is b or same(a, b):
            return a
        if isinstance(a, Rec) and isinstance(b, Rec) and a.kind == b.kind and set(a.fields) == set(b.fields):
            return Rec(a.kind, {k: self._merge_val(t, a.fields[k], b.fields[k]) for k in a.fields})
        if isinstance(a, tuple) and isinstance(b, tuple) and len(a) == len(b):
            return tuple(self._merge_val(t, x, y) for x, y in zip(a, b))
        if a is None or b is None:
            x = b if a is None else a
            if is_rat(x) and is_rat(t):
                # bound on one arm only: correct code reads it only where it is bound (`if cached: tf = ...` ... `if found: return tf`)
                return F.fn("ite", t, x, F.sym("?unbound")) if a is not None else F.fn("ite", t, F.sym("?unbound"), x)
            return Unknown("bound on one arm of an undecided test only")
        return self._ite(t, a, b)

    def _merge(self, t, env0, env1, env2):
        out = dict(env0)
        for k in set(env1) | set(env2):
            a, b = env1.get(k, env0.get(k)), env2.get(k, env0.get(k))
            out[k] = self._merge_val(t, a, b)
        return out

    def _arm(self, stmts, env0, maybe, cond=None):
        """run statements from env0 (`cond` = (test value, truth) that holds in them); returns (env, how the arm left the block: None / 'return' /
        'raise' / 'continue' / 'mixed')"""
        self.env = dict(env0)
        self.done = False
        self.exit = None
        self.maybe += 1 if maybe else 0
        if cond is not None and is_rat(cond[0]):
            self.path.append(cond)
        try:
            self.run(stmts)
        finally:
            self.maybe -= 1 if maybe else 0
            if cond is not None and is_rat(cond[0]):
                self.path.pop()
        env, ended = self.env, (self.exit or "mixed") if self.done else None
        self.done = False
        self.exit = None
        return env, ended

    def _if(self, st, body=None, orelse=None, rest=None):
        """-> True when the statements `rest` that follow the `if` in its block were evaluated as part of its arms"""
        body = st.body if body is None else body
        orelse = st.orelse if orelse is None else orelse
        c = self.decide(st.test)
        if c is True:
            self.run(body)
            return False
        if c is False:
            self.run(orelse)
            return False
        if self.only_raises(body) or self.only_raises(orelse):
            # the error exit: what follows runs with the test known to have failed / held
            dead_body = self.only_raises(body)
            tv = self.ev(st.test)
            self.guards.append((equalities(tv, not dead_body), st))
            if is_rat(tv):
                self.path.append((tv, not dead_body))           # holds from here on (popped when the activation ends)
            self.run(orelse if dead_body else body)
            return False
        if self.cont_raises:
            # everything after the `if` raises: an arm that does nothing falls into the error exit, so the other arm is the one that is alive
            idle1, idle2 = all(isinstance(x, ast.Pass) for x in body), all(isinstance(x, ast.Pass) for x in orelse)
            if idle1 != idle2:
                self.guards.append((equalities(self.ev(st.test), idle2), st))
                self.run(body if idle2 else orelse)
                return False
        consumed = False
        if rest and not always_ends(body) and not always_ends(orelse) and (_has_return(body) or _has_return(orelse)):
            # an arm returns on some of its paths: `if t: A; R` is `if t: A; R else: R` - every path then ends in a return and the returns merge
            body, orelse, consumed = body + rest, orelse + rest, True
            saved_cont, self.cont_raises = self.cont_raises, False
            try:
                self._if_undecided(st, body, orelse)
            finally:
                self.cont_raises = saved_cont
            return True
        self._if_undecided(st, body, orelse)
        return consumed

    def _if_undecided(self, st, body, orelse):
        t = self.ev(st.test)
        env0 = self.env
        end1, end2 = always_ends(body), always_ends(orelse)
        if end1 and end2:
            n0 = len(self.maybe_returns)
            _, k1 = self._arm(body, env0, True, (t, True))
            n1 = len(self.maybe_returns)
            _, k2 = self._arm(orelse, env0, True, (t, False))
            r1, r2 = self.maybe_returns[n0:n1], self.maybe_returns[n1:]
            self.env, self.done = env0, True
            self.exit = k1 if k1 == k2 else "mixed"
            if k1 == k2 == "return" and len(r1) == 1 and len(r2) == 1:
                # both arms return: one returned value that depends on the test
                del self.maybe_returns[n0:]
                (self.maybe_returns if self.maybe > self.maybe_base else self.returns).append((self._merge_val(t, r1[0][0], r2[0][0]), st))
            return
        if end1 or end2:
            self._arm(body if end1 else orelse, env0, True, (t, bool(end1)))
            self.env = env0
            self.done = False
            # what follows is reached only through the other arm
            if is_rat(t):
                self.path.append((t, not end1))
            try:
                return self.run(orelse if end1 else body)
            finally:
                if is_rat(t):
                    self.path.pop()
        env1, e1 = self._arm(body, env0, True, (t, True))
        env2, e2 = self._arm(orelse, env0, True, (t, False))
        if e1 and e2:
            self.env, self.done = env0, True
            self.exit = e1 if e1 == e2 else "mixed"
        elif e1:
            self.env = env2
        elif e2:
            self.env = env1
        else:
            self.env = self._merge(t, env0, env1, env2)

    def _body(self, stmts, symbolic):
        """one pass over a loop body; `continue` ends the pass, a return / raise on the definite path of a symbolic pass cannot be described"""
        self.loop_depth += 1
        try:
            self.run(stmts)
        finally:
            self.loop_depth -= 1
        if self.done and self.exit == "continue":
            self.done, self.exit = False, None
        if self.done and symbolic:
            raise Unsupported("return / raise inside a loop with a symbolic trip count")

    def _for(self, st):
        if st.orelse:
            raise Unsupported("for-else")
        sp = self._iter_spec(st.iter)
        if sp[0] == "unroll":
            for x in sp[1]:
                self._assign(st.target, x, st)
                self._body(st.body, False)
                if self.done:
                    break
            return
        lp = self._new_loop(sp[1], st)
        self.loop_stack.append(lp.id)
        try:
            self._assign(st.target, sp[2](lp.sym), st)
            self._body(st.body, True)
        finally:
            self.loop_stack.pop()

    def _counted(self, st):
        """`i = 0; while i < n: ...; i += 1` in any of its spellings -> (counter name, trip count value, body without the increment) or None"""
        t = st.test
        if st.orelse or not (isinstance(t, ast.Compare) and len(t.ops) == 1):
            return None
        l, r, op = t.left, t.comparators[0], type(t.ops[0]).__name__
        is_counter = lambda x: isinstance(x, ast.Name) and const_int(self.env.get(x.id)) == 0       # noqa: E731
        if not is_counter(l) and is_counter(r):
            l, r, op = r, l, {"Lt": "Gt", "Gt": "Lt", "LtE": "GtE", "GtE": "LtE"}.get(op, op)
        if not is_counter(l) or op not in ("Lt", "LtE", "NotEq") or not st.body:
            return None
        var, bound = l.id, r
        last = st.body[-1]
        inc = False
        if isinstance(last, ast.AugAssign) and isinstance(last.op, ast.Add) and isinstance(last.target, ast.Name) and last.target.id == var:
            inc = isinstance(last.value, ast.Constant) and last.value.value == 1
        elif isinstance(last, ast.Assign) and len(last.targets) == 1 and isinstance(last.targets[0], ast.Name) and last.targets[0].id == var \
                and isinstance(last.value, ast.BinOp) and isinstance(last.value.op, ast.Add):
            a, b = last.value.left, last.value.right
            inc = any(isinstance(x, ast.Name) and x.id == var and isinstance(y, ast.Constant) and y.value == 1 for x, y in ((a, b), (b, a)))
        if not inc:
            return None
        bound_names = {b.id for b in ast.walk(bound) if isinstance(b, ast.Name)}
        for s_ in st.body[:-1]:
            for n in ast.walk(s_):
                if isinstance(n, ast.Name) and isinstance(n.ctx, ast.Store) and (n.id == var or n.id in bound_names):
                    return None
                if isinstance(n, (ast.Break, ast.Continue)):
                    return None             # `continue` would skip the increment
        dom = self.ev(bound)
        if not is_rat(dom):
            return None
        if op == "LtE":
            dom = dom + F.const(1)
        return var, dom, st.body[:-1]

    def _counted_down(self, st):
        """`while i > 0: i -= 1; ...` (i starts at n) or `while i >= 0: ...; i -= 1` (i starts at n - 1): n passes, each index of range(n) once
        -> (counter name, trip count value, body without the decrement, value of the counter afterwards) or None"""
        t = st.test
        if isinstance(t, ast.Name):
            t = ast.copy_location(ast.Compare(left=t, ops=[ast.NotEq()], comparators=[ast.copy_location(ast.Constant(value=0), t)]), t)      # while n:
        if st.orelse or not (isinstance(t, ast.Compare) and len(t.ops) == 1) or len(st.body) < 1:
            return None
        v = self.ev(t)
        u = unfn(v) if is_rat(v) else None
        if not u or not u[0].startswith("cmp:") or len(u[1]) != 2:
            return None
        names = [x for x in (t.left, t.comparators[0]) if isinstance(x, ast.Name)]
        if len(names) != 1 or not is_rat(self.env.get(names[0].id)):
            return None
        var, start = names[0].id, self.env[names[0].id]
        # the test as `c < i` / `c <= i` / `i != c` on values (cmp_value normalises > and >=); the counter is the side that is its current value
        op, (a, b) = u[0][4:], u[1]
        lim = None
        if op in ("Lt", "LtE") and same(b, start) and const_int(a) is not None:
            lim = const_int(a) + (1 if op == "Lt" else 0)              # loop runs while i >= lim
        elif op == "NotEq" and const_int(a if same(b, start) else b) is not None and (same(a, start) or same(b, start)):
            lim = const_int(a if same(b, start) else b) + 1
        if lim is None:
            return None

        def is_dec(x):
            if isinstance(x, ast.AugAssign) and isinstance(x.op, ast.Sub) and isinstance(x.target, ast.Name) and x.target.id == var:
                return isinstance(x.value, ast.Constant) and x.value.value == 1
            return isinstance(x, ast.Assign) and len(x.targets) == 1 and isinstance(x.targets[0], ast.Name) and x.targets[0].id == var \
                and isinstance(x.value, ast.BinOp) and isinstance(x.value.op, ast.Sub) and isinstance(x.value.left, ast.Name) and x.value.left.id == var \
                and isinstance(x.value.right, ast.Constant) and x.value.right.value == 1

        if is_dec(st.body[0]) and lim == 1:
            body, dom, after = st.body[1:], start, F.const(0)          # indices n-1 .. 0
        elif is_dec(st.body[-1]) and lim == 0:
            body, dom, after = st.body[:-1], start + F.const(1), F.const(-1)
        else:
            return None
        for s_ in body:
            for n in ast.walk(s_):
                if isinstance(n, ast.Name) and isinstance(n.ctx, ast.Store) and n.id == var:
                    return None
                if isinstance(n, (ast.Break, ast.Continue)):
                    return None
        return var, dom, body, after

    def _while(self, st):
        cl = self._counted(st)
        if cl is None:
            cd = self._counted_down(st)
            if cd is None:
                raise Unsupported("while loop that is not a counted loop `i = 0; while i < n: ...; i += 1` (or its count-down twin)")
            var, dom, body, after = cd
            if const_int(dom) is not None:
                raise Unsupported("count-down loop with a literal trip count")
            lp = self._new_loop(dom, st)                                # every index of range(n) once: the order of the passes is not modelled
            self.loop_stack.append(lp.id)
            try:
                self.env[var] = lp.sym
                self._body(body, True)
            finally:
                self.loop_stack.pop()
            self.env[var] = after
            return
        var, dom, body = cl
        n = const_int(dom)
        if n is not None and 0 <= n <= MAX_UNROLL:
            for k in range(n):
                self.env[var] = F.const(k)
                self._body(body, False)
                if self.done:
                    return
            self.env[var] = dom
            return
        lp = self._new_loop(dom, st)
        self.loop_stack.append(lp.id)
        try:
            self.env[var] = lp.sym
            self._body(body, True)
        finally:
            self.loop_stack.pop()
        self.env[var] = dom

    def _with(self, st):
        suppress = False
        for it in st.items:
            v = self.ev(it.context_expr)
            if isinstance(it.context_expr, ast.Call) and (dotted(it.context_expr.func) or "").endswith("suppress"):
                suppress = True
            if it.optional_vars is not None:
                self._assign(it.optional_vars, v, st)
        if not suppress:
            return self.run(st.body)
        self._partial([st.body])

    def _partial(self, arms):
        """statement lists each of which may be executed in part or not at all: names they bind become opaque unless nothing changes"""
        env0 = self.env
        envs = []
        for a in arms:
            env, ended = self._arm(a, env0, True)
            if not ended:
                envs.append(env)
        out = dict(env0)
        k = len(self.guards) + len(self.events)
        for env in envs:
            for n, v in env.items():
                old = env0.get(n)
                if v is old or same(v, old):
                    continue
                out[n] = F.sym(f"?{k}:{n}") if is_rat(v) or is_rat(old) else Unknown(f"{n} bound inside try / suppress")
        self.env = out
        self.done = False

    def _try(self, st):
        if not st.handlers:
            # try / finally: nothing is caught - the body runs as written (an exception leaves the function)
            self.run(st.body + st.orelse)
            if st.finalbody:
                done, exit_ = self.done, self.exit
                self.done = False
                self.run(st.finalbody)
                self.done, self.exit = self.done or done, (self.exit if self.done and not done else exit_)
            return
        self._partial([st.body + st.orelse] + [h.body for h in st.handlers])
        if st.finalbody:
            self.run(st.finalbody)


class _Val(ast.expr):
    """an already evaluated operand (for augmented stores)"""
    _fields = ()

    def __init__(self, v):
        super().__init__()
        self.v = v


def _load(t):
    import copy
    n = copy.copy(t)
    n.ctx = ast.Load()
    return n
