"""C15 helper engine: symbolic evaluation of array code with arrays as *objects*.

Built on `e2_eval.AutoEvaluator` (unknown names are symbols, temporaries are substituted, unknown calls are opaque applications); added here:

  * every `np.empty / zeros / ones / eye / *_like / X.copy()` is a fresh array object `@k` with the *value* of its shape tuple (whatever
    temporaries, slices of tuples or module constants hold it); names, dict entries and helper parameters that refer to it are aliases;
  * `X[...]` on an array of known rank is the canonical atom `sel(X, s0, ..., s_{n-1})` (one selector per axis: `:` or the index value), so
    `X[:, j, :]`, `X[:, j]`, `X[..., j, :]` and `np.moveaxis(X, 1, 0)[j]` are one value; loads and stores are logged with the loops they
    happen in; a load right after a store with the same selectors reads the stored value;
  * loops with a symbolic trip count (`for i in range(n)`, `enumerate(X)`, iteration over an array, `i = 0; while i < n: ...; i += 1`,
    list comprehensions) are evaluated once on a fresh index symbol whose *domain* (the trip count value) is recorded; loops and
    comprehensions over literal tuples are unrolled;
  * calls to functions of the same module and to closures are followed on the argument values (same trace, same loop context);
  * an `if` the rule's oracle does not decide: an arm that only raises is the error exit (its test is logged as a guard: the equalities that
    hold afterwards); otherwise both arms are evaluated, their events are tagged `maybe`, and names that differ become `ite(test, a, b)`;
  * `SimpleNamespace(...)`, `dict(...)`, `{...}`, dict comprehensions with literal keys, `d.update(...)`, `f(**d)` are records by field name.

Nothing of /repo is imported or executed.  Matrix products commute in the formula domain (as everywhere in E2): `np.dot`/`@` are products,
`la.solve(X, Y)` is Y/X, `la.inv(X)` is 1/X, `np.transpose(X)` is `X.T`.
"""
from __future__ import annotations

import ast

from . import e2_formula as F
from .core import Unsupported
from .e1_srcmodel import dotted
from .e2_eval import AutoEvaluator, Unknown, is_unknown
from .sem import unfn

ALL = F.sym(":")
NONE = F.sym("None")
MAX_DEPTH = 6

ALLOC_CTORS = {"np.empty": None, "np.zeros": 0, "np.ones": 1, "numpy.empty": None, "numpy.zeros": 0, "numpy.ones": 1}
LIKE_CTORS = {"np.empty_like": None, "np.zeros_like": 0, "np.ones_like": 1}
SOLVE = {"la.solve", "np.linalg.solve", "scipy.linalg.solve", "linalg.solve"}
INV = {"la.inv", "np.linalg.inv", "scipy.linalg.inv", "linalg.inv"}
DOT = {"np.dot", "np.matmul"}
IDENT_CALLS = {"np.asarray", "np.array", "np.atleast_1d", "np.atleast_2d", "np.ascontiguousarray", "np.asfortranarray"}
IDENT_METHODS = {"ravel", "flatten", "copy", "squeeze"}


class Arr:
    def __init__(self, aid, ctor, shape, fill, node, loops, seq, like=None):
        self.id, self.ctor, self.shape, self.fill, self.node, self.loops, self.seq, self.like = aid, ctor, shape, fill, node, loops, seq, like
        self.sym = F.sym(f"@{aid}")

    def __repr__(self):
        return f"<@{self.id} {self.ctor} {self.shape}>"


class Loop:
    def __init__(self, lid, domain, node, parents):
        self.id, self.domain, self.node, self.parents = lid, domain, node, parents
        self.name = f"%{lid}"
        self.sym = F.sym(self.name)


class Rec:
    """SimpleNamespace / dict with literal field names"""

    _n = 0

    def __init__(self, kind, fields=None):
        self.kind = kind
        self.fields = dict(fields or {})
        Rec._n += 1
        self.sym = F.sym(f"rec#{Rec._n}")

    def __repr__(self):
        return f"<{self.kind} {sorted(self.fields)}>"


class Closure:
    def __init__(self, node, env, frame=None):
        self.node, self.env, self.frame = node, env, frame


def is_rat(v):
    return isinstance(v, F.Rat)


def one_sym(v):
    """name of the symbol `v` is, else None"""
    if not is_rat(v):
        return None
    try:
        if not v.d.is_const() or v.d.const_value() != 1 or len(v.n.t) != 1:
            return None
        (m, c), = v.n.t.items()
        if c != 1 or len(m) != 1 or m[0][1] != 1:
            return None
        d = F.atom_desc(m[0][0])
    except Exception:  # noqa
        return None
    return d[1] if d[0] == "s" else None


def const_int(v):
    if is_rat(v) and v.is_const():
        c = v.const_value()
        if c.denominator == 1:
            return int(c)
    return None


def same(a, b):
    if a is None or b is None or is_unknown(a) or is_unknown(b):
        return False
    if isinstance(a, tuple) or isinstance(b, tuple):
        return isinstance(a, tuple) and isinstance(b, tuple) and len(a) == len(b) and all(same(x, y) for x, y in zip(a, b))
    if not is_rat(a) or not is_rat(b):
        return a is b
    try:
        return a.equals(b)
    except Unsupported:
        return False


def str_const(v):
    """python string of a value that is a string literal, else None"""
    n = one_sym(v)
    if n and len(n) >= 2 and n[0] in "'\"" and n[-1] == n[0]:
        try:
            return ast.literal_eval(n)
        except Exception:  # noqa
            return None
    return None


def only_raises(stmts):
    """every path through the statements ends in `raise`"""
    if not stmts:
        return False
    last = stmts[-1]
    if isinstance(last, ast.Raise):
        return True
    if isinstance(last, ast.If):
        return only_raises(last.body) and only_raises(last.orelse)
    return False


def always_ends(stmts):
    if not stmts:
        return False
    last = stmts[-1]
    if isinstance(last, (ast.Raise, ast.Return)):
        return True
    if isinstance(last, ast.If):
        return always_ends(last.body) and always_ends(last.orelse)
    return False


def module_consts(ctx, rel):
    out = {}
    for st in ctx.src.mod(rel).tree.body:
        if isinstance(st, ast.Assign) and len(st.targets) == 1 and isinstance(st.targets[0], ast.Name):
            out[st.targets[0].id] = st.value
        elif isinstance(st, ast.AnnAssign) and isinstance(st.target, ast.Name) and st.value is not None:
            out[st.target.id] = st.value
    return out


class Interp(AutoEvaluator):
    def __init__(self, ctx, rel, cond=None, ndim=None, funcs=None):
        super().__init__(None, src=ctx.src, cond=cond)
        self.ctx, self.rel = ctx, rel
        self.consts = module_consts(ctx, rel)
        self._const_cache = {}
        self.userfuncs = dict(funcs or {})
        self.ndim_hook = ndim
        self.arrs = {}
        self.loops = {}
        self.comps = {}
        self.loop_stack = []
        self.events = []
        self.guards = []            # (pairs of values known equal after the guard, If node)
        self.maybe = 0
        self.quiet = 0
        self.maybe_returns = []
        self.depth = 0
        self.frame = object()       # identity of the function activation under evaluation (closures are late-bound to it)
        self.root_env = {}
        self.raised = False
        self.tag_conversions = False    # True: np.asarray / np.atleast_nd(x) is the value arr(x), not x

    # ------------------------------------------------------------------ entry points
    def run_function(self, fn, args=None):
        """evaluate `fn` on its parameter symbols (or the given values); returns the returned value"""
        a = fn.args
        env = {}
        for p in a.posonlyargs + a.args + a.kwonlyargs:
            env[p.arg] = F.sym(p.arg)
        if args:
            env.update(args)
        self.root_env = dict(env)
        self.env = env
        self.run(fn.body)
        return self.returns[-1][0] if self.returns else None

    def E(self, text, **bind):
        """value of a Python expression over the parameters of the function under evaluation (expected side of a rule); nothing is logged"""
        saved = self.env
        self.env = dict(self.root_env)
        self.env.update(bind)
        self.quiet += 1
        try:
            return self.ev(ast.parse(text, mode="eval").body)
        finally:
            self.quiet -= 1
            self.env = saved

    def same(self, got, want, **bind):
        w = self.E(want, **bind) if isinstance(want, str) else want
        return same(got, w)

    # ------------------------------------------------------------------ log
    def _log(self, kind, **kw):
        if self.quiet:
            return None
        self.seq += 1
        e = dict(kind=kind, seq=self.seq, loops=tuple(self.loop_stack), maybe=self.maybe > 0, **kw)
        self.events.append(e)
        return e

    def of_kind(self, *kinds):
        return [e for e in self.events if e["kind"] in kinds]

    def calls_of(self, *names):
        return [e for e in self.events if e["kind"] == "call" and e["name"] in names]

    def stores_of(self, arr=None):
        return [e for e in self.events if e["kind"] == "store" and (arr is None or e["arr"] == arr)]

    def known_equal(self, a, b):
        """same value, or equal by the guards passed so far (`if a != b: raise`)"""
        if same(a, b):
            return True
        cls = [a]
        grew = True
        pairs = [p for g, _ in self.guards for p in g]
        while grew:
            grew = False
            for x, y in pairs:
                for u, w in ((x, y), (y, x)):
                    if any(same(u, c) for c in cls) and not any(same(w, c) for c in cls):
                        cls.append(w)
                        grew = True
        return any(same(b, c) for c in cls)

    def arr_of(self, v):
        n = one_sym(v)
        if n and n.startswith("@"):
            return self.arrs.get(int(n[1:]))
        return None

    def loop_of(self, v):
        n = one_sym(v)
        if n and n.startswith("%"):
            return self.loops.get(int(n[1:]))
        return None

    def content(self, arr, seq, loops):
        """live (selectors, value) entries of array `arr` just before event `seq` evaluated inside `loops`: stores of the current pass over the
        enclosing loop bodies, provided every store made by a pass is undone (set back to the fill value) before the pass ends.
        -> list, or None when the state cannot be described (conditional stores, opaque indices, leftovers of earlier passes)"""
        sts = self.stores_of(arr.id)
        if any(s["maybe"] or s["sel"] is None for s in sts) or arr.fill is None:
            return None
        fill = F.const(arr.fill)

        def overlay(seq_):
            live = []
            for s in seq_:
                live = [(sl, v) for sl, v in live if not same(tuple(sl), tuple(s["sel"]))]
                live.append((s["sel"], s["value"]))
            return [(sl, v) for sl, v in live if not same(v, fill)]

        # loops that were entered after the array was created and enclose the read: what a full pass leaves behind must be nothing
        outer = [l for l in loops if l not in arr.loops]
        for l in outer:
            body = [s for s in sts if l in s["loops"]]
            if overlay(body):
                return None
        for s in sts:
            if s["seq"] < seq and any(l not in loops for l in s["loops"]):
                # stores of a finished loop with a symbolic index: a whole family of cells
                if not same(s["value"], fill):
                    return None
        return overlay([s for s in sts if s["seq"] < seq and all(l in loops for l in s["loops"])])

    # ------------------------------------------------------------------ values
    def ndim_of(self, v):
        if not is_rat(v):
            return None
        a = self.arr_of(v)
        if a is not None:
            if a.shape is not None:
                return len(a.shape)
            return self.ndim_of(a.like) if a.like is not None else None
        u = unfn(v)
        if u and u[0] == "perm":
            return len(u[1]) - 1
        if u and u[0] == "sel":
            rest = [s for s in u[1][1:] if same(s, ALL) or (unfn(s) and unfn(s)[0] == "slice")]
            return len(rest)
        if self.ndim_hook is not None:
            return self.ndim_hook(v, self)
        return None

    def shape_of(self, v):
        a = self.arr_of(v)
        if a is not None and a.shape is not None:
            return a.shape
        u = unfn(v) if is_rat(v) else None
        if u and u[0] == "perm":
            inner = self.shape_of(u[1][0])
            if inner is not None:
                return tuple(inner[const_int(p)] for p in u[1][1:])
            return tuple(F.fn("idx", F.fn("attr:shape", u[1][0]), p) for p in u[1][1:])
        return None

    def length(self, v):
        if isinstance(v, tuple):
            return F.const(len(v))
        n = one_sym(v)
        if n and n.startswith("comp#"):
            return self.comps[int(n[5:])][1]
        sh = self.shape_of(v)
        if sh is not None:
            return sh[0]
        u = unfn(v) if is_rat(v) else None
        if u and u[0] == "attr:shape":
            return F.fn("attr:ndim", u[1][0])
        if is_rat(v):
            return F.fn("call:len", v)
        return Unknown("len of a non-value")

    def element(self, v, i, node):
        n = one_sym(v)
        if n and n.startswith("comp#"):
            var, dom, elt = self.comps[int(n[5:])]
            return elt.subs({var: i}) if is_rat(elt) else Unknown("comprehension of non-values")
        return self._select(v, [i], node, False)

    # ------------------------------------------------------------------ indexing
    def _entries(self, sl):
        out = []
        elts = sl.elts if isinstance(sl, ast.Tuple) else [sl]
        for e in elts:
            if isinstance(e, ast.Slice):
                if e.lower is None and e.upper is None and e.step is None:
                    out.append(ALL)
                else:
                    parts = []
                    for p in (e.lower, e.upper, e.step):
                        v = NONE if p is None else self._ev(p)
                        if not is_rat(v):
                            raise Unsupported("slice bound")
                        parts.append(v)
                    out.append(F.fn("slice", *parts))
            elif isinstance(e, ast.Constant) and e.value is Ellipsis:
                out.append("...")
            else:
                v = self._ev(e)
                if isinstance(v, tuple) and not isinstance(sl, ast.Tuple):
                    # X[t] with t a tuple value: a multi-axis index
                    for x in v:
                        if not is_rat(x):
                            raise Unsupported("index")
                        out.append(x)
                    continue
                if not is_rat(v):
                    raise Unsupported(v.why if is_unknown(v) else "index")
                if same(v, F.sym("Ellipsis")):
                    out.append("...")
                elif same(v, NONE):
                    out.append("newaxis")
                else:
                    out.append(v)
        return out

    def _generic_idx(self, base, entries):
        parts = [F.sym("Ellipsis") if e == "..." else (NONE if e == "newaxis" else e) for e in entries]
        parts = [F.fn("slice", NONE, NONE, NONE) if same(p, ALL) else p for p in parts]
        ix = parts[0] if len(parts) == 1 else F.fn("tuple", *parts)
        return F.fn("idx", base, ix), ix

    def _canon(self, base, entries):
        """(underlying array value, selectors on its axes, order of the remaining axes) or None"""
        nd = self.ndim_of(base)
        if nd is None or "newaxis" in entries or entries.count("...") > 1:
            return None
        for e in entries:
            if is_rat(e):
                u = unfn(e)
                if u and u[0].startswith("call:np.ix_"):
                    return None
        n_given = len([e for e in entries if e != "..."])
        if n_given > nd:
            raise Unsupported("too many indices")
        sels = []
        for e in entries:
            if e == "...":
                sels.extend([ALL] * (nd - n_given))
            else:
                sels.append(e)
        sels.extend([ALL] * (nd - len(sels)))
        u = unfn(base)
        if u and u[0] == "perm":
            inner = u[1][0]
            perm = [const_int(p) for p in u[1][1:]]
            under = [ALL] * nd
            for i, s in enumerate(sels):
                under[perm[i]] = s
            rest = [perm[i] for i, s in enumerate(sels) if not self._scalar_sel(s)]
            return inner, under, rest
        if u and u[0] == "sel":
            inner, isel = u[1][0], list(u[1][1:])
            free = [i for i, s in enumerate(isel) if not self._scalar_sel(s)]
            for ax, s in zip(free, sels):
                if same(isel[ax], ALL):
                    isel[ax] = s
                elif not same(s, ALL):
                    return None
            return inner, isel, None
        return base, sels, None

    @staticmethod
    def _scalar_sel(s):
        if same(s, ALL):
            return False
        u = unfn(s)
        return not (u and u[0] == "slice")

    def _select(self, base, entries, node, store, value=None):
        """value of base[entries] (load) or log of the store"""
        if not is_rat(base):
            return Unknown("subscript of a non-value")
        n = one_sym(base)
        if n and n.startswith("comp#") and not store and len(entries) == 1 and is_rat(entries[0]) and self._scalar_sel(entries[0]):
            var, dom, elt = self.comps[int(n[5:])]
            return elt.subs({var: entries[0]})
        c = self._canon(base, entries)
        if c is None:
            gv, ix = self._generic_idx(base, entries)
            a = self.arr_of(base)
            if store:
                self._log("store", arr=a.id if a else None, base=base, sel=None, ix=ix, value=value, node=node)
                return None
            return gv
        under, sels, rest = c
        a = self.arr_of(under)
        if store:
            self._log("store", arr=a.id if a else None, base=under, sel=sels, ix=None, value=value, node=node)
            return None
        self._log("load", arr=a.id if a else None, base=under, sel=sels, node=node)
        if all(same(s, ALL) for s in sels):
            v = under
        else:
            v = None
            if a is not None:
                for s in reversed(self.stores_of(a.id)):
                    if s["sel"] is not None and not s["maybe"] and same(tuple(s["sel"]), tuple(sels)):
                        v = s["value"] if is_rat(s["value"]) else None
                    break
            if v is None:
                v = F.fn("sel", under, *sels)
        if rest is not None and rest != sorted(rest):
            # axes of the result are not in the order of the underlying array: a transposed view
            srt = sorted(rest)
            inv = [srt.index(r) for r in rest]
            v = F.fn("attr:T", v) if inv == [1, 0] else F.fn("perm", v, *[F.const(i) for i in inv])
        return v

    # ------------------------------------------------------------------ expressions
    def _ev(self, node):
        if isinstance(node, _Val):
            return node.v
        if isinstance(node, ast.Name):
            if node.id in self.env:
                return self.env[node.id]
            if node.id in self.consts:
                return self._const(node.id)
            return super()._ev(node)
        if isinstance(node, ast.Attribute):
            return self._attr(node)
        if isinstance(node, ast.Subscript):
            base = self._ev(node.value)
            if isinstance(base, Rec):
                k = str_const(self._ev(node.slice))
                if k is None or k not in base.fields:
                    return Unknown(f"record field {ast.unparse(node.slice)}")
                return base.fields[k]
            if isinstance(base, tuple):
                i = self._ev(node.slice) if not isinstance(node.slice, (ast.Slice, ast.Tuple)) else None
                ci = const_int(i) if i is not None else None
                if ci is not None:
                    try:
                        return base[ci]
                    except IndexError:
                        return Unknown("tuple index out of range")
                return super(AutoEvaluator, self)._ev(node)
            if is_unknown(base):
                return base
            try:
                return self._select(base, self._entries(node.slice), node, False)
            except Unsupported as e:
                return Unknown(str(e))
        if isinstance(node, ast.IfExp):
            c = self.decide(node.test)
            if c is True:
                return self._ev(node.body)
            if c is False:
                return self._ev(node.orelse)
            t = self._ev(node.test)
            self.maybe += 1
            try:
                a, b = self._ev(node.body), self._ev(node.orelse)
            finally:
                self.maybe -= 1
            return self._ite(t, a, b)
        if isinstance(node, (ast.ListComp, ast.GeneratorExp, ast.SetComp, ast.DictComp)):
            return self._comp(node)
        if isinstance(node, ast.Dict):
            r = Rec("dict")
            for k, v in zip(node.keys, node.values):
                ks = str_const(self._ev(k)) if k is not None else None
                if ks is None:
                    return Unknown("dict with computed keys")
                r.fields[ks] = self.ev(v)
            return r
        if isinstance(node, ast.Compare):
            # a == b == c  ->  conjunction of the links; a tuple operand is a value of its own
            vals = []
            for x in [node.left] + list(node.comparators):
                v = self._ev(x)
                if isinstance(v, tuple) and all(is_rat(y) for y in v):
                    v = F.fn("tuple", *v)
                if not is_rat(v):
                    return v if is_unknown(v) else Unknown("comparison of non-values")
                vals.append(v)
            links = [F.fn("cmp:" + type(op).__name__, vals[i], vals[i + 1]) for i, op in enumerate(node.ops)]
            return links[0] if len(links) == 1 else F.fn("bool:And", *links)
        return super()._ev(node)

    def _ite(self, t, a, b):
        if same(a, b):
            return a
        if is_rat(t) and is_rat(a) and is_rat(b):
            return F.fn("ite", t, a, b)
        return Unknown("merge of an undecided test")

    def _const(self, name):
        if name not in self._const_cache:
            self._const_cache[name] = Unknown("recursive module constant")
            saved = self.env
            self.env = {}
            self.quiet += 1
            try:
                self._const_cache[name] = self.ev(self.consts[name])
            finally:
                self.quiet -= 1
                self.env = saved
        return self._const_cache[name]

    def _attr(self, node):
        d = dotted(node)
        if d is not None:
            if d in self.env:
                return self.env[d]
            root = d.split(".")[0]
            if root not in self.env and root not in self.consts:
                return super()._ev(node)          # np.pi, math.pi, names of other modules: symbols
        base = self._ev(node.value)
        if isinstance(base, Rec):
            return base.fields.get(node.attr, Unknown(f"field {node.attr}"))
        if not is_rat(base):
            return base if is_unknown(base) else Unknown(f"attribute of {type(base).__name__}")
        if node.attr == "shape":
            sh = self.shape_of(base)
            if sh is not None:
                return tuple(sh)
        if node.attr == "ndim":
            nd = self.ndim_of(base) if self.arr_of(base) is not None else None
            if nd is not None:
                return F.const(nd)
        return F.fn("attr:" + node.attr, base)

    # ------------------------------------------------------------------ comprehensions and iteration
    def _iter_spec(self, it):
        """('unroll', [values]) or ('sym', domain, element function of the index value)"""
        if isinstance(it, ast.Call) and isinstance(it.func, ast.Name) and it.func.id not in self.env:
            nm = it.func.id
            if nm == "range" and not it.keywords and 1 <= len(it.args) <= 2:
                vals = [self._ev(a) for a in it.args]
                if len(vals) == 2:
                    if const_int(vals[0]) != 0:
                        raise Unsupported("range with a start")
                    vals = vals[1:]
                if not is_rat(vals[0]):
                    raise Unsupported("range bound")
                return ("sym", vals[0], lambda i: i)
            if nm == "enumerate" and len(it.args) == 1 and not it.keywords:
                sp = self._iter_spec(it.args[0])
                if sp[0] == "unroll":
                    return ("unroll", [(F.const(k), v) for k, v in enumerate(sp[1])])
                return ("sym", sp[1], lambda i, f=sp[2]: (i, f(i)))
            if nm == "zip" and it.args and not it.keywords:
                sps = [self._iter_spec(a) for a in it.args]
                if all(s[0] == "unroll" for s in sps):
                    return ("unroll", [tuple(x) for x in zip(*[s[1] for s in sps])])
                if all(s[0] == "sym" for s in sps):
                    # zip stops with the shortest operand: one trip count when the lengths are the same value or were checked equal by a guard
                    dom = sps[0][1] if all(self.known_equal(s[1], sps[0][1]) for s in sps) else F.fn("min", *sorted((s[1] for s in sps), key=repr))
                    return ("sym", dom, lambda i, fs=[s[2] for s in sps]: tuple(f(i) for f in fs))
                raise Unsupported("zip of sequences of different kinds")
        v = self._ev(it)
        if isinstance(v, tuple):
            return ("unroll", list(v))
        if not is_rat(v):
            raise Unsupported(f"iteration over {ast.unparse(it)[:40]}")
        dom = self.length(v)
        if not is_rat(dom):
            raise Unsupported("length of the iterated value")
        return ("sym", dom, lambda i, v=v, it=it: self.element(v, i, it))

    def _new_loop(self, domain, node):
        lid = len(self.loops) + 1
        lp = Loop(lid, domain, node, tuple(self.loop_stack))
        self.loops[lid] = lp
        return lp

    def _comp(self, node):
        if len(node.generators) != 1 or node.generators[0].ifs or node.generators[0].is_async:
            return Unknown("comprehension with filters or several generators")
        g = node.generators[0]
        try:
            sp = self._iter_spec(g.iter)
        except Unsupported as e:
            return Unknown(str(e))
        saved = self.env
        self.env = dict(saved)
        try:
            if sp[0] == "unroll":
                if isinstance(node, ast.DictComp):
                    r = Rec("dict")
                    for x in sp[1]:
                        self._assign(g.target, x, node)
                        k = str_const(self.ev(node.key))
                        if k is None:
                            return Unknown("dict comprehension with computed keys")
                        r.fields[k] = self.ev(node.value)
                    return r
                out = []
                for x in sp[1]:
                    self._assign(g.target, x, node)
                    out.append(self.ev(node.elt))
                return tuple(out)
            if isinstance(node, ast.DictComp):
                return Unknown("dict comprehension over a symbolic range")
            lp = self._new_loop(sp[1], node)
            self.loop_stack.append(lp.id)
            try:
                self._assign(g.target, sp[2](lp.sym), node)
                elt = self.ev(node.elt)
            finally:
                self.loop_stack.pop()
            if not is_rat(elt):
                return Unknown("comprehension element")
            cid = len(self.comps) + 1
            self.comps[cid] = (lp.name, sp[1], elt)
            return F.sym(f"comp#{cid}")
        finally:
            self.env = saved

    # ------------------------------------------------------------------ calls
    def _call(self, node):
        name = dotted(node.func)
        # user functions: closures and functions of the same module
        target = None
        if isinstance(node.func, ast.Name):
            v = self.env.get(node.func.id)
            if isinstance(v, Closure):
                target = v
            elif node.func.id not in self.env and node.func.id in self.userfuncs:
                target = Closure(self.userfuncs[node.func.id], None)
        pos, kws = [], {}
        for a in node.args:
            if isinstance(a, ast.Starred):
                v = self.ev(a.value)
                if isinstance(v, tuple):
                    pos.extend(v)
                else:
                    pos.append(Unknown("*args"))
            else:
                pos.append(self.ev(a))
        for k in node.keywords:
            v = self.ev(k.value)
            if k.arg is None:
                if isinstance(v, Rec):
                    kws.update(v.fields)
                else:
                    kws["**"] = Unknown("**kwargs")
            else:
                kws[k.arg] = v
        if target is not None:
            return self._invoke(target, pos, kws, node)
        recv = None
        if isinstance(node.func, ast.Attribute):
            root = name.split(".")[0] if name else None
            if name is None or root in self.env or root in self.consts:
                recv = self.ev(node.func.value)
                name = "." + node.func.attr
        elif name is None:
            return Unknown("call of a computed callable")
        r = self._model(name, recv, pos, kws, node)
        if r is not NotImplemented:
            return r
        e = self._log("call", name=name, recv=recv, pos=pos, kw=kws, node=node, value=None)
        args = []
        if recv is not None:
            args.append(recv)
        args.extend(pos)
        flat = []
        for v in args:
            if isinstance(v, Rec):
                v = v.sym
            if isinstance(v, tuple):
                if not all(is_rat(x) for x in v):
                    return Unknown("nested tuple argument")
                v = F.fn("tuple", *v)
            if not is_rat(v):
                return v if is_unknown(v) else Unknown("argument is not a value")
            flat.append(v)
        for k, v in kws.items():
            if isinstance(v, Rec):
                v = v.sym
            if isinstance(v, tuple) and all(is_rat(x) for x in v):
                v = F.fn("tuple", *v)
            if not is_rat(v):
                return Unknown(f"keyword {k}")
            flat.append(F.fn("kw:" + k, v))
        val = F.fn("call:" + name, *flat)
        if e is not None:
            e["value"] = val
        return val

    def _model(self, name, recv, pos, kws, node):
        if name in ALLOC_CTORS or name in ("np.eye", "np.identity") or name in LIKE_CTORS:
            return self._alloc(name, pos, kws, node)
        if recv is not None and name == ".copy" and not pos and self.arr_of(recv) is not None:
            src = self.arr_of(recv)
            clean = not self.stores_of(src.id)
            return self._new_arr("copy", src.shape, src.fill if clean else None, node, like=src.like if src.shape is None else None).sym
        if name == "len" and len(pos) == 1 and not kws:
            return self.length(pos[0])
        if recv is not None and name == ".update" and isinstance(recv, Rec):
            for p in pos:
                if isinstance(p, Rec):
                    recv.fields.update(p.fields)
                else:
                    return Unknown("update from a non-record")
            recv.fields.update(kws)
            return NONE
        if name in ("SimpleNamespace", "types.SimpleNamespace") and not pos:
            self._log("call", name=name, recv=None, pos=pos, kw=kws, node=node, value=None)
            return Rec("ns", kws)
        if name == "dict" and not pos:
            return Rec("dict", kws)
        if name in DOT and len(pos) == 2 and not kws and all(is_rat(p) for p in pos):
            return pos[0] * pos[1]
        if recv is not None and name == ".dot" and len(pos) == 1 and is_rat(recv) and is_rat(pos[0]):
            return recv * pos[0]
        if name in SOLVE and len(pos) == 2 and all(is_rat(p) for p in pos):
            self._log("call", name=name, recv=None, pos=pos, kw=kws, node=node, value=None)
            if pos[0].is_zero():
                return Unknown("division by zero")
            return pos[1] / pos[0]
        if name in INV and len(pos) == 1 and is_rat(pos[0]) and not pos[0].is_zero():
            self._log("call", name=name, recv=None, pos=pos, kw=kws, node=node, value=None)
            return F.const(1) / pos[0]
        if name == "np.transpose" and len(pos) == 1 and not kws and is_rat(pos[0]):
            return F.fn("attr:T", pos[0])
        if name in ("np.transpose", "np.moveaxis", "np.swapaxes") and pos and is_rat(pos[0]):
            p = self._perm(name, pos, kws)
            if p is not None:
                return p
        if name in IDENT_CALLS and pos and is_rat(pos[0]):
            if self.tag_conversions and self.arr_of(pos[0]) is None and not (unfn(pos[0]) and unfn(pos[0])[0] == "arr"):
                return F.fn("arr", pos[0])           # array_like -> ndarray: kept visible (idempotent; an array object stays itself)
            return pos[0]
        if recv is not None and name[1:] in IDENT_METHODS and is_rat(recv) and not pos:
            return recv
        if name in self.funcs and len(pos) == 1 and is_rat(pos[0]) and not kws:
            return self.funcs[name](pos[0])
        return NotImplemented

    def _perm(self, name, pos, kws):
        nd = self.ndim_of(pos[0])
        if nd is None:
            return None
        if name == "np.transpose":
            ax = pos[1] if len(pos) > 1 else kws.get("axes")
            if not isinstance(ax, tuple) or len(ax) != nd:
                return None
            perm = [const_int(a) for a in ax]
        else:
            keys = ("source", "destination") if name == "np.moveaxis" else ("axis1", "axis2")
            a = pos[1] if len(pos) > 1 else kws.get(keys[0])
            b = pos[2] if len(pos) > 2 else kws.get(keys[1])
            a, b = const_int(a), const_int(b)
            if a is None or b is None:
                return None
            a, b = a % nd, b % nd
            perm = list(range(nd))
            if name == "np.swapaxes":
                perm[a], perm[b] = perm[b], perm[a]
            else:
                perm.remove(a)
                perm.insert(b, a)
        if any(p is None for p in perm):
            return None
        perm = [p % nd for p in perm]
        base = pos[0]
        u = unfn(base)
        if u and u[0] == "perm":
            inner = [const_int(p) for p in u[1][1:]]
            perm = [inner[p] for p in perm]
            base = u[1][0]
        if perm == list(range(nd)):
            return base
        return F.fn("perm", base, *[F.const(p) for p in perm])

    def _new_arr(self, ctor, shape, fill, node, like=None):
        aid = len(self.arrs) + 1
        self.seq += 1
        a = Arr(aid, ctor, shape, fill, node, tuple(self.loop_stack), self.seq, like)
        self.arrs[aid] = a
        if not self.quiet:
            self.events.append(dict(kind="alloc", seq=self.seq, loops=tuple(self.loop_stack), maybe=self.maybe > 0, arr=aid, node=node))
        return a

    def _alloc(self, name, pos, kws, node):
        if name in LIKE_CTORS:
            src = pos[0] if pos else None
            if not is_rat(src):
                return Unknown("like of a non-value")
            sh = self.shape_of(src)
            return self._new_arr(name, tuple(sh) if sh is not None else None, LIKE_CTORS[name], node, like=src).sym
        if name in ("np.eye", "np.identity"):
            n = pos[0] if pos else kws.get("N", kws.get("n"))
            m = pos[1] if len(pos) > 1 else kws.get("M", n)
            if not is_rat(n) or not is_rat(m):
                return Unknown("eye size")
            return self._new_arr("np.eye", (n, m), None, node).sym
        sh = pos[0] if pos else kws.get("shape")
        like = None
        if isinstance(sh, tuple):
            if not all(is_rat(x) for x in sh):
                return Unknown("shape")
            shape = tuple(sh)
        elif is_rat(sh):
            u = unfn(sh)
            if u and u[0] == "attr:shape":
                shape, like = None, u[1][0]
            else:
                shape = (sh,)
        else:
            return Unknown("shape")
        return self._new_arr(name, shape, ALLOC_CTORS[name], node, like=like).sym

    def _invoke(self, target, pos, kws, node):
        fn = target.node
        if self.depth >= MAX_DEPTH:
            raise Unsupported(f"call depth at {fn.name}")
        a = fn.args
        if a.vararg or a.kwarg or "**" in kws:
            return Unknown(f"variadic call of {fn.name}")
        params = [x.arg for x in a.posonlyargs + a.args]
        if len(pos) > len(params):
            return Unknown(f"too many arguments for {fn.name}")
        env = {}
        if target.env is not None:
            env = dict(self.env if target.frame is self.frame else target.env)     # late binding: the defining frame as it is now
        bound = {}
        for p_, v in zip(params, pos):
            bound[p_] = v
        kwonly = [x.arg for x in a.kwonlyargs]
        for k, v in kws.items():
            if k not in params and k not in kwonly:
                return Unknown(f"unexpected keyword {k} for {fn.name}")
            bound[k] = v
        saved = (self.env, self.returns, self.done, self.maybe_returns, self.raised)
        dflt = dict(zip(params[::-1], (a.defaults or [])[::-1]))
        dflt.update({p_: d for p_, d in zip(kwonly, a.kw_defaults) if d is not None})
        for p_ in params + kwonly:
            if p_ not in bound:
                if p_ not in dflt:
                    return Unknown(f"missing argument {p_} for {fn.name}")
                self.env = {}
                bound[p_] = self.ev(dflt[p_])
                self.env = saved[0]
        env.update(bound)
        self.env, self.returns, self.done, self.maybe_returns, self.raised = env, [], False, [], False
        self.depth += 1
        frame, self.frame = self.frame, object()
        try:
            self.run(fn.body)
            rets, mrets = self.returns, self.maybe_returns
        finally:
            self.depth -= 1
            self.frame = frame
            self.env, self.returns, self.done, self.maybe_returns, self.raised = saved
        if mrets:
            return Unknown(f"conditional return in {fn.name}")
        if not rets:
            return NONE
        v = rets[-1][0]
        return NONE if v is None else v

    # ------------------------------------------------------------------ statements
    def stmt(self, st):
        if self.done:
            return
        if isinstance(st, (ast.FunctionDef, ast.AsyncFunctionDef)):
            self.env[st.name] = Closure(st, self.env, self.frame)
            return
        if isinstance(st, ast.Expr):
            if isinstance(st.value, ast.Call):
                self.ev(st.value)
            return
        if isinstance(st, ast.Return):
            v = self.ev(st.value) if st.value is not None else None
            (self.maybe_returns if self.maybe else self.returns).append((v, st))
            self.done = True
            return
        if isinstance(st, ast.Raise):
            self.done = True
            self.raised = True
            return
        if isinstance(st, ast.If):
            return self._if(st)
        if isinstance(st, ast.For):
            return self._for(st)
        if isinstance(st, ast.While):
            return self._while(st)
        if isinstance(st, ast.With):
            return self._with(st)
        if isinstance(st, ast.Try):
            return self._try(st)
        if isinstance(st, (ast.Break, ast.Continue)):
            raise Unsupported("break / continue")
        if isinstance(st, ast.AugAssign) and isinstance(st.target, ast.Subscript):
            cur = self.ev(_load(st.target))
            v = self.ev(st.value)
            nv = Unknown("augmented store")
            if is_rat(cur) and is_rat(v):
                try:
                    nv = self._ev(ast.BinOp(left=_Val(cur), op=st.op, right=_Val(v)))
                except Unsupported as e:
                    nv = Unknown(str(e))
            self._assign(st.target, nv, st)
            return
        return super(AutoEvaluator, self).stmt(st)

    def _assign(self, target, v, st, aug=False):
        if isinstance(target, ast.Name):
            self.env[target.id] = v
            return
        if isinstance(target, (ast.Tuple, ast.List)):
            n = len(target.elts)
            if isinstance(v, tuple) and len(v) == n:
                for t, x in zip(target.elts, v):
                    self._assign(t, x, st)
            elif is_rat(v) and not any(isinstance(t, ast.Starred) for t in target.elts):
                for i, t in enumerate(target.elts):
                    self._assign(t, F.fn("idx", v, F.const(i)), st)
            else:
                for t in target.elts:
                    self._assign(t, Unknown("tuple unpacking of a non-tuple"), st)
            return
        if isinstance(target, ast.Subscript):
            base = self.ev(target.value)
            if isinstance(base, Rec):
                k = str_const(self.ev(target.slice))
                if k is not None:
                    base.fields[k] = v
                return
            if is_rat(base):
                try:
                    self._select(base, self._entries(target.slice), st, True, value=v)
                except Unsupported as e:
                    a = self.arr_of(base)
                    self._log("store", arr=a.id if a else None, base=base, sel=None, ix=Unknown(str(e)), value=v, node=st)
            return
        if isinstance(target, ast.Attribute):
            d = dotted(target)
            if d:
                self.env[d] = v
            return

    def _merge(self, t, env0, env1, env2):
        out = dict(env0)
        for k in set(env1) | set(env2):
            a, b = env1.get(k, env0.get(k)), env2.get(k, env0.get(k))
            if a is b or same(a, b):
                out[k] = a
            elif a is None or b is None:
                out[k] = Unknown(f"{k} bound on one arm of an undecided test only")
            else:
                out[k] = self._ite(t, a, b)
        return out

    def _arm(self, stmts, env0, maybe):
        """run statements from env0; returns (env, ended)"""
        self.env = dict(env0)
        self.done = False
        self.maybe += 1 if maybe else 0
        try:
            self.run(stmts)
        finally:
            self.maybe -= 1 if maybe else 0
        env, ended = self.env, self.done
        self.done = False
        return env, ended

    def _if(self, st):
        c = self.decide(st.test)
        if c is True:
            return self.run(st.body)
        if c is False:
            return self.run(st.orelse)
        if only_raises(st.body) or only_raises(st.orelse):
            dead_body = only_raises(st.body)
            self.guards.append((self._equalities(st.test, not dead_body), st))
            return self.run(st.orelse if dead_body else st.body)
        t = self.ev(st.test)
        env0 = self.env
        end1, end2 = always_ends(st.body), always_ends(st.orelse)
        if end1 and end2:
            self._arm(st.body, env0, True)
            self._arm(st.orelse, env0, True)
            self.env, self.done = env0, True
            return
        if end1 or end2:
            self._arm(st.body if end1 else st.orelse, env0, True)
            self.env = env0
            self.done = False
            return self.run(st.orelse if end1 else st.body)
        env1, e1 = self._arm(st.body, env0, True)
        env2, e2 = self._arm(st.orelse, env0, True)
        if e1 and e2:
            self.env, self.done = env0, True
        elif e1:
            self.env = env2
        elif e2:
            self.env = env1
        else:
            self.env = self._merge(t, env0, env1, env2)

    def _equalities(self, test, truth):
        """pairs of values known to be equal when `test` has the given truth value"""
        if isinstance(test, ast.UnaryOp) and isinstance(test.op, ast.Not):
            return self._equalities(test.operand, not truth)
        if isinstance(test, ast.BoolOp):
            if isinstance(test.op, ast.And) == truth:       # (a and b) true / (a or b) false: every operand has that truth value
                out = []
                for v in test.values:
                    out.extend(self._equalities(v, truth))
                return out
            return []
        if isinstance(test, ast.Compare):
            want = ast.Eq if truth else ast.NotEq
            if all(isinstance(o, want) for o in test.ops) and (truth or len(test.ops) == 1):
                vals = [self.ev(test.left)] + [self.ev(c) for c in test.comparators]
                return [(a, b) for a, b in zip(vals, vals[1:]) if is_rat(a) and is_rat(b)]
        return []

    def _for(self, st):
        if st.orelse:
            raise Unsupported("for-else")
        sp = self._iter_spec(st.iter)
        if sp[0] == "unroll":
            for x in sp[1]:
                self._assign(st.target, x, st)
                self.run(st.body)
                if self.done:
                    break
            return
        lp = self._new_loop(sp[1], st)
        self.loop_stack.append(lp.id)
        try:
            self._assign(st.target, sp[2](lp.sym), st)
            self.run(st.body)
            if self.done:
                raise Unsupported("return / raise inside a loop with a symbolic trip count")
        finally:
            self.loop_stack.pop()

    def _while(self, st):
        t = st.test
        if st.orelse or not (isinstance(t, ast.Compare) and len(t.ops) == 1):
            raise Unsupported("while loop that is not a counted loop")
        var, bound = None, None
        if isinstance(t.left, ast.Name) and isinstance(t.ops[0], (ast.Lt, ast.NotEq)):
            var, bound = t.left.id, t.comparators[0]
        elif isinstance(t.comparators[0], ast.Name) and isinstance(t.ops[0], (ast.Gt, ast.NotEq)):
            var, bound = t.comparators[0].id, t.left
        last = st.body[-1] if st.body else None
        ok = var is not None and const_int(self.env.get(var)) == 0 and isinstance(last, ast.AugAssign) and isinstance(last.op, ast.Add) \
            and isinstance(last.target, ast.Name) and last.target.id == var and isinstance(last.value, ast.Constant) and last.value.value == 1
        if ok:
            for s in st.body[:-1]:
                for n in ast.walk(s):
                    if isinstance(n, ast.Name) and n.id == var and isinstance(n.ctx, ast.Store):
                        ok = False
                    if isinstance(n, (ast.Break, ast.Continue)):
                        ok = False
        if not ok:
            raise Unsupported("while loop that is not `i = 0; while i < n: ...; i += 1`")
        dom = self.ev(bound)
        if not is_rat(dom):
            raise Unsupported("while bound")
        for s in st.body:
            for n in ast.walk(s):
                if isinstance(n, ast.Name) and isinstance(n.ctx, ast.Store) and any(isinstance(b, ast.Name) and b.id == n.id for b in ast.walk(bound)):
                    raise Unsupported("while bound changed by the body")
        lp = self._new_loop(dom, st)
        self.loop_stack.append(lp.id)
        try:
            self.env[var] = lp.sym
            self.run(st.body[:-1])
            if self.done:
                raise Unsupported("return / raise inside a loop with a symbolic trip count")
        finally:
            self.loop_stack.pop()
        self.env[var] = dom

    def _with(self, st):
        suppress = False
        for it in st.items:
            v = self.ev(it.context_expr)
            if isinstance(it.context_expr, ast.Call) and (dotted(it.context_expr.func) or "").endswith("suppress"):
                suppress = True
            if it.optional_vars is not None:
                self._assign(it.optional_vars, v, st)
        if not suppress:
            return self.run(st.body)
        self._partial([st.body])

    def _partial(self, arms):
        """statement lists each of which may be executed in part or not at all: names they bind become opaque unless nothing changes"""
        env0 = self.env
        envs = []
        for a in arms:
            env, ended = self._arm(a, env0, True)
            if not ended:
                envs.append(env)
        out = dict(env0)
        k = len(self.guards) + len(self.events)
        for env in envs:
            for n, v in env.items():
                old = env0.get(n)
                if v is old or same(v, old):
                    continue
                out[n] = F.sym(f"?{k}:{n}") if is_rat(v) or is_rat(old) else Unknown(f"{n} bound inside try / suppress")
        self.env = out
        self.done = False

    def _try(self, st):
        self._partial([st.body + st.orelse] + [h.body for h in st.handlers])
        if st.finalbody:
            self.run(st.finalbody)


class _Val(ast.expr):
    """an already evaluated operand (for augmented stores)"""
    _fields = ()

    def __init__(self, v):
        super().__init__()
        self.v = v


def _load(t):
    import copy
    n = copy.copy(t)
    n.ctx = ast.Load()
    return n
