"""C16-R7: form_extreme places the rows of an event by LABEL (finite world, concrete evaluation of the source; nothing of pyyeti is imported).

The function of cla/dr_results.py that calls `merge_lists` (found by that call, not by its name: `_check_row_compatibility` today, with its
helper `_expand`, nested in form_extreme or moved to module level) makes the running envelope and the incoming event row-compatible before
`extrema` compares them row by row.  It is run by a small concrete interpreter (Mini) in every world of two label lists drawn from three
labels (all ordered subsets: identical, permuted, subset, superset, overlapping, disjoint) x (abscissa tables present / absent).  The cells of the
tables are tokens (event, table, label, column): the code can move them, never compute with them.  Necessary conditions of "forming extremes over
events gives the envelope of the parts":

  * both returned categories carry the same row labels in the same order, every label of either input once;
  * row i of every table of a returned category holds the input's row of label L[i]; a label the event does not have is a NaN row in .ext
    (never data of another label, never uninitialised memory in any table); maxcase / mincase follow their rows;
  * the incoming event (it stays in the caller's results) is not modified.

A shortcut that returns a category unexpanded is thereby only right when the labels are identical in order - equal lengths do not establish
that (round-4 seed J).  A construct Mini has no model of, or an exception raised by the evaluated code, makes the world undecided (exit 2);
a violation needs a world that was evaluated completely."""
from __future__ import annotations

import ast
import itertools

from .e1_srcmodel import dotted, walk_no_nested, ancestors

RES = "pyyeti/cla/dr_results.py"


class Unsupported(Exception):
    pass


class PyRaise(Exception):
    def __init__(self, name, msg=""):
        super().__init__(f"{name}: {msg}")
        self.name = name


class _Ret(Exception):
    def __init__(self, v):
        self.v = v


class _Brk(Exception):
    pass


class _Cnt(Exception):
    pass


class NaNType:
    def __repr__(self):
        return "nan"


NAN = NaNType()


class Uninit:
    def __repr__(self):
        return "<uninitialised>"


UNINIT = Uninit()


class NS:
    """types.SimpleNamespace"""

    def __init__(self, **kw):
        self.d = dict(kw)

    def __repr__(self):
        return f"NS({sorted(self.d)})"


class Mod:
    def __init__(self, name):
        self.name = name

    def __repr__(self):
        return f"<module {self.name}>"


class Exc:
    def __init__(self, name):
        self.name = name


class TypeMark:
    def __init__(self, name, node=None):
        self.name, self.node = name, node


class Arr:
    """1-D or 2-D array: nested lists of cells (tokens, NAN, UNINIT, ints, bools)"""

    def __init__(self, data, ndim):
        self.data, self.ndim = data, ndim

    @property
    def shape(self):
        if self.ndim == 1:
            return (len(self.data),)
        return (len(self.data), self.ncol)

    ncol = 0

    def copy(self):
        a = Arr([list(r) for r in self.data] if self.ndim == 2 else list(self.data), self.ndim)
        a.ncol = self.ncol
        return a

    def __repr__(self):
        return f"Arr{self.data}"


def arr2(rows, ncol):
    a = Arr([list(r) for r in rows], 2)
    a.ncol = ncol
    return a


def arr1(vals):
    return Arr(list(vals), 1)


class Func:
    def __init__(self, node, env, bound_self=None):
        self.node, self.env, self.bound_self = node, env, bound_self


class Env:
    def __init__(self, parent=None):
        self.v, self.parent = {}, parent

    def get(self, name):
        e = self
        while e is not None:
            if name in e.v:
                return e.v[name]
            e = e.parent
        raise KeyError(name)


BUILTIN_TYPES = {"str": str, "list": list, "tuple": tuple, "int": int, "dict": dict, "set": set, "bool": bool, "float": float}
SAFE_HOST = (list, dict, str, tuple, set, frozenset, int, float, bool, type(None), range)
EXC_NAMES = ("ValueError", "KeyError", "IndexError", "TypeError", "AttributeError", "Exception", "RuntimeError", "LookupError", "StopIteration",
             "NotImplementedError", "AssertionError")


def merge_lists_model(l1, l2):
    """contract of pyyeti.locate.merge_lists (same algorithm as documented there)"""
    merged = list(l1)
    pend = []
    for e in l2:
        if e in merged:
            i = merged.index(e)
            for j, x in enumerate(pend):
                merged.insert(i + j, x)
            pend = []
        else:
            pend.append(e)
    merged.extend(pend)
    return merged, [merged.index(e) for e in l1], [merged.index(e) for e in l2]


class Mini:
    """concrete interpreter for the small list / namespace / row-table subset of Python the row-compatibility code is written in"""

    def __init__(self, module_tree, budget=200000):
        self.steps = budget
        self.genv = Env()
        self._module_scope(module_tree)

    # ------------------------------------------------------------------ scopes
    def _module_scope(self, tree):
        g = self.genv.v
        for n in tree.body:
            self._scope_stmt(n, self.genv)
        g.setdefault("np", Mod("numpy"))
        g.setdefault("copy", Mod("copy"))

    def _scope_stmt(self, n, env, cls=None):
        if isinstance(n, ast.FunctionDef):
            env.v[n.name] = Func(n, env)
        elif isinstance(n, ast.Import):
            for a in n.names:
                env.v[a.asname or a.name.split(".")[0]] = Mod(a.name if a.asname else a.name.split(".")[0])
        elif isinstance(n, ast.ImportFrom):
            for a in n.names:
                env.v[a.asname or a.name] = Mod(f"{n.module or ''}.{a.name}")
        elif isinstance(n, ast.ClassDef):
            env.v[n.name] = TypeMark(n.name, n)
        elif isinstance(n, ast.Assign) and len(n.targets) == 1 and isinstance(n.targets[0], ast.Name):
            try:
                env.v[n.targets[0].id] = ast.literal_eval(n.value)
            except Exception:
                pass
        elif isinstance(n, (ast.Try, ast.If)):
            for s in n.body:
                if isinstance(s, (ast.Import, ast.ImportFrom)):
                    self._scope_stmt(s, env)

    def env_for(self, fn):
        """lexical environment of a function definition: the nested definitions and literal constants of every enclosing function, the
        methods of an enclosing class through `self`, then the module"""
        chain = [a for a in ancestors(fn) if isinstance(a, (ast.FunctionDef, ast.ClassDef))][::-1]
        env = self.genv
        self.cls_methods = {}
        for a in chain:
            if isinstance(a, ast.ClassDef):
                for s in a.body:
                    if isinstance(s, ast.FunctionDef):
                        self.cls_methods[s.name] = s
                continue
            e = Env(env)
            for s in a.body:
                self._scope_stmt(s, e)
            env = e
        return env

    # ------------------------------------------------------------------ calls
    def call_func(self, f, args, kwargs):
        node = f.node
        env = Env(f.env)
        a = node.args
        names = [x.arg for x in a.posonlyargs + a.args]
        args = list(args)
        if f.bound_self is not None:
            args = [f.bound_self] + args
        if a.vararg or a.kwarg:
            raise Unsupported("*args / **kwargs parameters")
        if len(args) > len(names):
            raise PyRaise("TypeError", "too many arguments")
        nd = len(a.defaults)
        for i, nm in enumerate(names):
            if i < len(args):
                env.v[nm] = args[i]
            elif nm in kwargs:
                env.v[nm] = kwargs.pop(nm)
            elif i >= len(names) - nd:
                env.v[nm] = self.ev(a.defaults[i - (len(names) - nd)], f.env)
            else:
                raise PyRaise("TypeError", f"missing argument {nm}")
        for k, d in zip(a.kwonlyargs, a.kw_defaults):
            if k.arg in kwargs:
                env.v[k.arg] = kwargs.pop(k.arg)
            elif d is not None:
                env.v[k.arg] = self.ev(d, f.env)
            else:
                raise PyRaise("TypeError", f"missing argument {k.arg}")
        if kwargs:
            raise PyRaise("TypeError", f"unexpected keyword {sorted(kwargs)}")
        if any(isinstance(n, (ast.Yield, ast.YieldFrom)) for n in walk_no_nested(node)):
            raise Unsupported("generator function")
        try:
            self.block(node.body, env)
        except _Ret as r:
            return r.v
        return None

    # ------------------------------------------------------------------ statements
    def block(self, stmts, env):
        for s in stmts:
            self.stmt(s, env)

    def tick(self):
        self.steps -= 1
        if self.steps < 0:
            raise Unsupported("step budget exhausted")

    def stmt(self, s, env):
        self.tick()
        if isinstance(s, ast.Expr):
            self.ev(s.value, env)
        elif isinstance(s, ast.Assign):
            v = self.ev(s.value, env)
            for t in s.targets:
                self.assign(t, v, env)
        elif isinstance(s, ast.AnnAssign):
            if s.value is not None:
                self.assign(s.target, self.ev(s.value, env), env)
        elif isinstance(s, ast.AugAssign):
            cur = self.ev(s.target, env)
            rhs = self.ev(s.value, env)
            if isinstance(cur, list) and isinstance(s.op, ast.Add):
                cur.extend(self.iterate(rhs))           # in place, as in Python
                return
            if isinstance(cur, (Arr, list, dict, set)):
                raise Unsupported("augmented assignment on a container")
            self.assign(s.target, self.binop(s.op, cur, rhs), env)
        elif isinstance(s, ast.If):
            self.block(s.body if self.truth(self.ev(s.test, env)) else s.orelse, env)
        elif isinstance(s, ast.For):
            broke = False
            for item in self.iterate(self.ev(s.iter, env)):
                self.assign(s.target, item, env)
                try:
                    self.block(s.body, env)
                except _Brk:
                    broke = True
                    break
                except _Cnt:
                    continue
            if not broke:
                self.block(s.orelse, env)
        elif isinstance(s, ast.While):
            while self.truth(self.ev(s.test, env)):
                self.tick()
                try:
                    self.block(s.body, env)
                except _Brk:
                    break
                except _Cnt:
                    continue
            else:
                self.block(s.orelse, env)
        elif isinstance(s, ast.Return):
            raise _Ret(self.ev(s.value, env) if s.value is not None else None)
        elif isinstance(s, ast.Pass):
            pass
        elif isinstance(s, ast.Break):
            raise _Brk()
        elif isinstance(s, ast.Continue):
            raise _Cnt()
        elif isinstance(s, ast.Raise):
            name = "Exception"
            if s.exc is not None:
                e = s.exc.func if isinstance(s.exc, ast.Call) else s.exc
                name = dotted(e) or "Exception"
            raise PyRaise(name, "raised by the evaluated code")
        elif isinstance(s, ast.Assert):
            if not self.truth(self.ev(s.test, env)):
                raise PyRaise("AssertionError", "assert in the evaluated code")
        elif isinstance(s, ast.FunctionDef):
            env.v[s.name] = Func(s, env)
        elif isinstance(s, ast.Try):
            if s.finalbody:
                raise Unsupported("try / finally")
            try:
                self.block(s.body, env)
            except PyRaise as e:
                for h in s.handlers:
                    names = []
                    if h.type is None:
                        names = ["*"]
                    elif isinstance(h.type, ast.Tuple):
                        names = [dotted(x) for x in h.type.elts]
                    else:
                        names = [dotted(h.type)]
                    if "*" in names or e.name in names or "Exception" in names or "BaseException" in names \
                            or (e.name in ("KeyError", "IndexError") and "LookupError" in names):
                        if h.name:
                            env.v[h.name] = Exc(e.name)
                        self.block(h.body, env)
                        break
                else:
                    raise
            else:
                self.block(s.orelse, env)
        elif isinstance(s, ast.Delete):
            for t in s.targets:
                if isinstance(t, ast.Subscript):
                    o = self.ev(t.value, env)
                    i = self.index(t.slice, env)
                    if isinstance(o, (list, dict)):
                        self.host(lambda: o.__delitem__(i))
                    else:
                        raise Unsupported("del on this object")
                elif isinstance(t, ast.Name):
                    env.v.pop(t.id, None)
                else:
                    raise Unsupported("del target")
        elif isinstance(s, (ast.Import, ast.ImportFrom)):
            self._scope_stmt(s, env)
        elif isinstance(s, (ast.Global, ast.Nonlocal)):
            raise Unsupported("global / nonlocal")
        else:
            raise Unsupported(f"statement {type(s).__name__}")

    def host(self, thunk):
        try:
            return thunk()
        except (ValueError, KeyError, IndexError, TypeError, AttributeError, StopIteration, ZeroDivisionError) as e:
            raise PyRaise(type(e).__name__, str(e))

    def assign(self, t, v, env):
        if isinstance(t, ast.Name):
            env.v[t.id] = v
        elif isinstance(t, (ast.Tuple, ast.List)):
            items = list(self.iterate(v))
            if any(isinstance(x, ast.Starred) for x in t.elts):
                raise Unsupported("starred unpacking")
            if len(items) != len(t.elts):
                raise PyRaise("ValueError", "unpack")
            for x, y in zip(t.elts, items):
                self.assign(x, y, env)
        elif isinstance(t, ast.Attribute):
            o = self.ev(t.value, env)
            if isinstance(o, NS):
                o.d[t.attr] = v
            else:
                raise Unsupported(f"attribute store on {type(o).__name__}")
        elif isinstance(t, ast.Subscript):
            o = self.ev(t.value, env)
            i = self.index(t.slice, env)
            if isinstance(o, Arr):
                self.arr_set(o, i, v)
            elif isinstance(o, (list, dict)):
                if isinstance(i, Arr) or isinstance(v, Arr) and isinstance(i, slice):
                    raise Unsupported("array as list index")
                self.host(lambda: o.__setitem__(i, v))
            else:
                raise Unsupported(f"subscript store on {type(o).__name__}")
        else:
            raise Unsupported(f"assignment target {type(t).__name__}")

    # ------------------------------------------------------------------ arrays
    @staticmethod
    def _rows(a, sel):
        """row numbers selected by sel (int list / slice / bool mask / Arr)"""
        n = len(a.data)
        if isinstance(sel, slice):
            return list(range(n))[sel]
        if isinstance(sel, Arr):
            if sel.ndim != 1:
                raise Unsupported("2-D index array")
            sel = sel.data
        if isinstance(sel, (list, tuple, range)):
            sel = list(sel)
            if sel and all(isinstance(x, bool) for x in sel):
                if len(sel) != n:
                    raise PyRaise("IndexError", "mask length")
                return [k for k, b in enumerate(sel) if b]
            if all(isinstance(x, int) and not isinstance(x, bool) for x in sel):
                out = []
                for x in sel:
                    if not -n <= x < n:
                        raise PyRaise("IndexError", "row index out of range")
                    out.append(x % n if n else x)
                return out
        raise Unsupported(f"row selector {sel!r}")

    def arr_get(self, a, i):
        if a.ndim == 1:
            if isinstance(i, int) and not isinstance(i, bool):
                return self.host(lambda: a.data[i])
            return arr1([a.data[k] for k in self._rows(a, i)])
        if i is Ellipsis:
            return a
        col = slice(None)
        if isinstance(i, tuple):
            if len(i) != 2:
                raise Unsupported("index with more than two axes")
            i, col = i
            if i is Ellipsis:
                i = slice(None)
        if isinstance(i, int) and not isinstance(i, bool):
            row = self.host(lambda: a.data[i])
            if isinstance(col, int):
                return self.host(lambda: row[col])
            if col == slice(None):
                return arr1(row)
            raise Unsupported("column selector")
        rows = [a.data[k] for k in self._rows(a, i)]
        if isinstance(col, int) and not isinstance(col, bool):
            return arr1([self.host(lambda r=r: r[col]) for r in rows])
        if col == slice(None):
            return arr2(rows, a.ncol)
        raise Unsupported("column selector")

    def arr_set(self, a, i, v):
        if a.ndim == 1:
            if isinstance(i, int) and not isinstance(i, bool) and not isinstance(v, Arr):
                self.host(lambda: a.data.__setitem__(i, v))
                return
            ks = self._rows(a, i)
            vals = v.data if isinstance(v, Arr) else (list(v) if isinstance(v, (list, tuple)) else [v] * len(ks))
            if len(vals) != len(ks):
                raise PyRaise("ValueError", "shape mismatch")
            for k, x in zip(ks, vals):
                a.data[k] = x
            return
        col = slice(None)
        if i is Ellipsis:
            i = slice(None)
        if isinstance(i, tuple):
            if len(i) != 2:
                raise Unsupported("index with more than two axes")
            i, col = i
            if i is Ellipsis:
                i = slice(None)
        if isinstance(i, int) and not isinstance(i, bool):
            n = len(a.data)
            if not -n <= i < n:
                raise PyRaise("IndexError", "row index out of range")
            ks = [i % n]
            single = True
        else:
            ks = self._rows(a, i)
            single = False
        if isinstance(col, int) and not isinstance(col, bool):
            cs = [col]
            if not -a.ncol <= col < a.ncol:
                raise PyRaise("IndexError", "column index out of range")
        elif col == slice(None):
            cs = list(range(a.ncol))
        else:
            raise Unsupported("column selector")
        # value -> block len(ks) x len(cs)
        if isinstance(v, Arr):
            if v.ndim == 2:
                blk = v.data
                if single and len(blk) == 1:
                    pass
                if len(blk) != len(ks) and len(blk) == 1:
                    blk = [blk[0]] * len(ks)
                if len(blk) != len(ks) or (blk and len(blk[0]) != len(cs)):
                    raise PyRaise("ValueError", f"shape mismatch: value array of shape {v.shape} could not be broadcast to indexing result of shape ({len(ks)}, {len(cs)})")
            else:
                if len(cs) == 1 and len(v.data) == len(ks) and not single:
                    blk = [[x] for x in v.data]
                elif len(v.data) == len(cs):
                    blk = [list(v.data)] * len(ks)
                else:
                    raise PyRaise("ValueError", "shape mismatch")
        elif isinstance(v, (list, tuple)):
            raise Unsupported("python sequence stored into an array")
        else:
            blk = [[v] * len(cs)] * len(ks)
        for k, row in zip(ks, blk):
            for c, x in zip(cs, row):
                a.data[k][c] = x

    def np_call(self, name, args, kw):
        short = name.split(".", 1)[1] if "." in name else name

        def shape_of(s):
            if isinstance(s, int) and not isinstance(s, bool):
                return (s,)
            if isinstance(s, (tuple, list)) and 1 <= len(s) <= 2 and all(isinstance(x, int) and not isinstance(x, bool) for x in s):
                return tuple(s)
            raise Unsupported(f"shape {s!r}")

        def filled(shape, val):
            shape = shape_of(shape)
            if len(shape) == 1:
                return arr1([val] * shape[0])
            return arr2([[val] * shape[1] for _ in range(shape[0])], shape[1])

        kw = dict(kw)
        kw.pop("dtype", None)
        kw.pop("order", None)
        if short in ("empty", "zeros", "ones") and len(args) == 1 and not kw:
            return filled(args[0], {"empty": UNINIT, "zeros": 0.0, "ones": 1.0}[short])
        if short == "full":
            a = list(args) + ([kw.pop("fill_value")] if "fill_value" in kw else [])
            if len(a) == 2 and not kw:
                return filled(a[0], a[1])
        if short in ("empty_like", "zeros_like", "ones_like", "full_like") and args and isinstance(args[0], Arr):
            val = {"empty_like": UNINIT, "zeros_like": 0.0, "ones_like": 1.0}.get(short)
            if short == "full_like":
                a = list(args[1:]) + ([kw.pop("fill_value")] if "fill_value" in kw else [])
                if len(a) != 1:
                    raise Unsupported("np.full_like arguments")
                val = a[0]
            elif len(args) != 1:
                raise Unsupported(f"np.{short} arguments")
            if not kw:
                return filled(args[0].shape, val)
        if short == "arange" and len(args) == 1 and not kw and isinstance(args[0], int):
            return arr1(range(args[0]))
        if short in ("array", "asarray", "asanyarray", "copy") and len(args) == 1 and not kw:
            x = args[0]
            if isinstance(x, Arr):
                return x.copy() if short in ("array", "copy") else x
            if isinstance(x, (list, tuple, range)) and all(isinstance(e, (int, bool, str)) for e in x):
                return arr1(x)
        if short == "array_equal" and len(args) == 2 and not kw:
            a, b = (x if isinstance(x, Arr) else (arr1(x) if isinstance(x, (list, tuple, range)) else None) for x in args)
            if a is None or b is None or a.ndim != 1 or b.ndim != 1:
                raise Unsupported("np.array_equal operands")
            self._comparable(a.data + b.data)
            return a.data == b.data
        if short in ("all", "any") and len(args) == 1 and not kw and isinstance(args[0], Arr) and args[0].ndim == 1:
            self._comparable(args[0].data)
            return (all if short == "all" else any)(bool(x) for x in args[0].data)
        if short in ("isnan",) and len(args) == 1 and not kw:
            raise Unsupported("np.isnan on table data")
        raise Unsupported(f"call of numpy.{short}")

    @staticmethod
    def _comparable(vals):
        for x in vals:
            if not isinstance(x, (int, bool, str)):
                raise Unsupported("comparison / truth of table data")

    # ------------------------------------------------------------------ expressions
    def truth(self, v):
        if isinstance(v, (bool, int, str, list, tuple, dict, set, type(None), range, float)):
            return bool(v)
        if isinstance(v, (NS, Func, Mod, TypeMark)):
            return True
        if isinstance(v, Arr):
            if v.ndim == 1 and len(v.data) == 1:
                self._comparable(v.data)
                return bool(v.data[0])
            raise PyRaise("ValueError", "truth value of an array")
        raise Unsupported(f"truth of {type(v).__name__}")

    def iterate(self, v):
        if isinstance(v, (list, tuple, str, set, frozenset, range, dict)):
            return list(v)
        if isinstance(v, Arr):
            if v.ndim == 1:
                return list(v.data)
            return [arr1(r) for r in v.data]
        if type(v).__name__ in ("dict_items", "dict_keys", "dict_values", "enumerate", "zip", "reversed", "map", "filter", "list_iterator", "generator"):
            return list(v)
        raise Unsupported(f"iteration over {type(v).__name__}")

    def index(self, sl, env):
        if isinstance(sl, ast.Slice):
            return slice(*(self.ev(x, env) if x is not None else None for x in (sl.lower, sl.upper, sl.step)))
        if isinstance(sl, ast.Tuple):
            return tuple(self.index(x, env) for x in sl.elts)
        return self.ev(sl, env)

    def binop(self, o, a, b):
        if isinstance(a, Arr) or isinstance(b, Arr):
            arr, other = (a, b) if isinstance(a, Arr) else (b, a)
            if other is NAN and isinstance(o, (ast.Mult, ast.Add, ast.Sub, ast.Div)):
                r = arr.copy()
                if r.ndim == 1:
                    r.data = [NAN] * len(r.data)
                else:
                    r.data = [[NAN] * r.ncol for _ in r.data]
                return r
            raise Unsupported("arithmetic on a table")
        if a is NAN or b is NAN:
            if isinstance(a, (int, float, NaNType)) and isinstance(b, (int, float, NaNType)):
                return NAN
            raise Unsupported("arithmetic with nan")
        if not (isinstance(a, SAFE_HOST) and isinstance(b, SAFE_HOST)):
            raise Unsupported("arithmetic on table data")
        import operator as _o
        f = {ast.Add: _o.add, ast.Sub: _o.sub, ast.Mult: _o.mul, ast.FloorDiv: _o.floordiv, ast.Mod: _o.mod, ast.Div: _o.truediv,
             ast.BitAnd: _o.and_, ast.BitOr: _o.or_, ast.BitXor: _o.xor, ast.Pow: _o.pow}.get(type(o))
        if f is None:
            raise Unsupported(f"operator {type(o).__name__}")
        if isinstance(o, ast.Pow) or (isinstance(o, ast.Mult) and any(isinstance(x, int) and not isinstance(x, bool) and abs(x) > 10000 for x in (a, b))):
            raise Unsupported("large arithmetic")
        return self.host(lambda: f(a, b))

    def cmp(self, o, a, b):
        if isinstance(o, ast.Is):
            return a is b
        if isinstance(o, ast.IsNot):
            return a is not b
        if isinstance(a, Arr) or isinstance(b, Arr):
            if isinstance(o, (ast.In, ast.NotIn)):
                raise Unsupported("membership test on an array")
            x, y = (v if isinstance(v, Arr) else (arr1(v) if isinstance(v, (list, tuple, range)) else v) for v in (a, b))
            if isinstance(x, Arr) and isinstance(y, Arr):
                if x.ndim != 1 or y.ndim != 1:
                    raise Unsupported("comparison of tables")
                if len(x.data) != len(y.data):
                    if len(x.data) == 1 or len(y.data) == 1:
                        raise Unsupported("broadcast comparison")
                    # numpy: shape mismatch (elementwise comparison fails / DeprecationWarning -> error in numpy 2)
                    raise PyRaise("ValueError", "operands could not be broadcast together")
                pairs = list(zip(x.data, y.data))
            else:
                arr, sc = (x, y) if isinstance(x, Arr) else (y, x)
                if arr.ndim != 1 or not isinstance(sc, (int, str, bool)):
                    raise Unsupported("comparison of a table")
                pairs = [(e, sc) if arr is x else (sc, e) for e in arr.data]
            self._comparable([e for p in pairs for e in p])
            return arr1([self._cmp_host(o, p, q) for p, q in pairs])
        for v in (a, b):
            if not isinstance(v, SAFE_HOST):
                if isinstance(o, (ast.Eq, ast.NotEq)) and isinstance(v, (NS, NaNType, Uninit)):
                    continue
                raise Unsupported(f"comparison of {type(v).__name__}")
        if a is NAN or b is NAN or a is UNINIT or b is UNINIT:
            raise Unsupported("comparison of table data")
        return self._cmp_host(o, a, b)

    def _cmp_host(self, o, a, b):
        import operator as _o
        f = {ast.Eq: _o.eq, ast.NotEq: _o.ne, ast.Lt: _o.lt, ast.LtE: _o.le, ast.Gt: _o.gt, ast.GtE: _o.ge,
             ast.In: lambda x, y: x in y, ast.NotIn: lambda x, y: x not in y}[type(o)]
        self._no_tokens(a)
        self._no_tokens(b)
        return self.host(lambda: f(a, b))

    def _no_tokens(self, v, depth=0):
        if isinstance(v, Token):
            raise Unsupported("comparison of table data")
        if isinstance(v, (list, tuple, set, frozenset)) and depth < 3:
            for x in v:
                self._no_tokens(x, depth + 1)

    def ev(self, e, env):
        self.tick()
        if isinstance(e, ast.Constant):
            return e.value
        if isinstance(e, ast.Name):
            try:
                return env.get(e.id)
            except KeyError:
                pass
            if e.id in BUILTIN_TYPES or e.id in ("len", "range", "enumerate", "zip", "sorted", "reversed", "isinstance", "getattr", "setattr", "hasattr",
                                                 "vars", "all", "any", "min", "max", "sum", "map", "filter", "frozenset", "abs", "repr", "iter", "next",
                                                 "type", "id", "callable"):
                return ("builtin", e.id)
            if e.id in EXC_NAMES:
                return Exc(e.id)
            if e.id == "SimpleNamespace":
                return TypeMark("SimpleNamespace")
            raise PyRaise("NameError", e.id)
        if isinstance(e, ast.Attribute):
            o = self.ev(e.value, env)
            return self.getattr_(o, e.attr)
        if isinstance(e, ast.Subscript):
            o = self.ev(e.value, env)
            i = self.index(e.slice, env)
            if isinstance(o, Arr):
                return self.arr_get(o, i)
            if isinstance(o, (list, tuple, str, dict, range)):
                if isinstance(i, (Arr, list)) and not isinstance(o, dict):
                    raise PyRaise("TypeError", "list indices must be integers or slices")
                return self.host(lambda: o[i])
            raise Unsupported(f"subscript of {type(o).__name__}")
        if isinstance(e, ast.Call):
            return self.call(e, env)
        if isinstance(e, ast.BinOp):
            return self.binop(e.op, self.ev(e.left, env), self.ev(e.right, env))
        if isinstance(e, ast.UnaryOp):
            v = self.ev(e.operand, env)
            if isinstance(e.op, ast.Not):
                return not self.truth(v)
            if isinstance(e.op, ast.USub) and isinstance(v, (int, float)):
                return -v
            if isinstance(e.op, ast.Invert) and isinstance(v, Arr) and v.ndim == 1 and all(isinstance(x, bool) for x in v.data):
                return arr1([not x for x in v.data])
            raise Unsupported("unary operator")
        if isinstance(e, ast.BoolOp):
            v = None
            for x in e.values:
                v = self.ev(x, env)
                t = self.truth(v)
                if isinstance(e.op, ast.And) and not t:
                    return v
                if isinstance(e.op, ast.Or) and t:
                    return v
            return v
        if isinstance(e, ast.Compare):
            left = self.ev(e.left, env)
            r = True
            for o, c in zip(e.ops, e.comparators):
                right = self.ev(c, env)
                r = self.cmp(o, left, right)
                if len(e.ops) > 1 and not self.truth(r):
                    return r
                left = right
            return r
        if isinstance(e, ast.IfExp):
            return self.ev(e.body if self.truth(self.ev(e.test, env)) else e.orelse, env)
        if isinstance(e, (ast.List, ast.Tuple, ast.Set)):
            out = []
            for x in e.elts:
                if isinstance(x, ast.Starred):
                    out.extend(self.iterate(self.ev(x.value, env)))
                else:
                    out.append(self.ev(x, env))
            if isinstance(e, ast.Set):
                return self.host(lambda: set(out))
            return out if isinstance(e, ast.List) else tuple(out)
        if isinstance(e, ast.Dict):
            d = {}
            for k, v in zip(e.keys, e.values):
                if k is None:
                    d.update(self.ev(v, env))
                else:
                    kk, vv = self.ev(k, env), self.ev(v, env)
                    self.host(lambda: d.__setitem__(kk, vv))
            return d
        if isinstance(e, (ast.ListComp, ast.GeneratorExp, ast.SetComp, ast.DictComp)):
            out = []

            def rec(gi, env2):
                if gi == len(e.generators):
                    if isinstance(e, ast.DictComp):
                        out.append((self.ev(e.key, env2), self.ev(e.value, env2)))
                    else:
                        out.append(self.ev(e.elt, env2))
                    return
                g = e.generators[gi]
                for item in self.iterate(self.ev(g.iter, env2)):
                    self.tick()
                    e3 = Env(env2)
                    self.assign(g.target, item, e3)
                    if all(self.truth(self.ev(c, e3)) for c in g.ifs):
                        rec(gi + 1, e3)

            rec(0, Env(env))
            if isinstance(e, ast.SetComp):
                return self.host(lambda: set(out))
            if isinstance(e, ast.DictComp):
                return self.host(lambda: dict(out))
            return out
        if isinstance(e, ast.JoinedStr):
            return "<f-string>"
        if isinstance(e, ast.Lambda):
            return Func(ast.FunctionDef(name="<lambda>", args=e.args, body=[ast.Return(value=e.body)], decorator_list=[]), env)
        if isinstance(e, ast.NamedExpr):
            v = self.ev(e.value, env)
            self.assign(e.target, v, env)
            return v
        if isinstance(e, ast.Starred):
            raise Unsupported("starred expression")
        raise Unsupported(f"expression {type(e).__name__}")

    def getattr_(self, o, name, default=KeyError):
        if isinstance(o, NS):
            if name == "__dict__":
                return o.d
            if name in o.d:
                return o.d[name]
            if default is not KeyError:
                return default
            raise PyRaise("AttributeError", name)
        if isinstance(o, Mod):
            full = f"{o.name}.{name}"
            if full in ("numpy.nan", "numpy.NaN", "numpy.NAN", "math.nan"):
                return NAN
            if full == "numpy.newaxis":
                raise Unsupported("np.newaxis")
            return Mod(full)
        if isinstance(o, Arr):
            if name == "shape":
                return o.shape
            if name == "ndim":
                return o.ndim
            if name == "size":
                return len(o.data) * (o.ncol if o.ndim == 2 else 1)
            if name in ("copy", "fill", "all", "any", "tolist", "astype"):
                return ("arrmeth", o, name)
            raise Unsupported(f"array attribute .{name}")
        if isinstance(o, SAFE_HOST) and not isinstance(o, type(None)):
            if name.startswith("_"):
                raise Unsupported(f"attribute {name}")
            if not hasattr(o, name):
                raise PyRaise("AttributeError", name)
            return ("hostmeth", o, name)
        if isinstance(o, SelfObj):
            m = self.cls_methods.get(name)
            if m is None:
                raise Unsupported(f"self.{name}")
            deco = [dotted(d) for d in m.decorator_list]
            return Func(m, self.genv, bound_self=None if "staticmethod" in deco else o)
        if isinstance(o, TypeMark) and o.node is not None:
            for m in o.node.body:
                if isinstance(m, ast.FunctionDef) and m.name == name:
                    return Func(m, self.genv)          # `Class.method`: a plain function (self, if any, is passed explicitly)
            raise Unsupported(f"{o.name}.{name}")
        if o is None:
            if default is not KeyError:
                return default
            raise PyRaise("AttributeError", f"None.{name}")
        raise Unsupported(f"attribute .{name} of {type(o).__name__}")

    def call(self, e, env):
        f = self.ev(e.func, env)
        args, kw = [], {}
        for a in e.args:
            if isinstance(a, ast.Starred):
                args.extend(self.iterate(self.ev(a.value, env)))
            else:
                args.append(self.ev(a, env))
        for k in e.keywords:
            if k.arg is None:
                d = self.ev(k.value, env)
                if not isinstance(d, dict):
                    raise Unsupported("** of a non-dict")
                kw.update(d)
            else:
                kw[k.arg] = self.ev(k.value, env)
        return self.apply(f, args, kw)

    def apply(self, f, args, kw):
        self.tick()
        if isinstance(f, Func):
            return self.call_func(f, args, dict(kw))
        if isinstance(f, Mod):
            n = f.name
            if n.endswith("merge_lists"):
                if len(args) != 2 or kw or not all(isinstance(x, list) for x in args):
                    raise Unsupported("merge_lists arguments")
                for x in args:
                    if len(set(x)) != len(x):
                        raise Unsupported("merge_lists with repeated labels")
                m, p1, p2 = merge_lists_model(*args)
                return (m, p1, p2)
            if n in ("copy.copy", "copy.deepcopy"):
                if len(args) != 1 or kw:
                    raise Unsupported("copy arguments")
                return self.copy_(args[0], deep=n.endswith("deepcopy"))
            if n.startswith("numpy."):
                return self.np_call(n, args, kw)
            if n in ("types.SimpleNamespace",):
                return NS(**kw)
            raise Unsupported(f"call of {n}")
        if isinstance(f, TypeMark):
            if f.name == "SimpleNamespace" and not args:
                return NS(**kw)
            raise Unsupported(f"construction of {f.name}")
        if isinstance(f, Exc):
            return f
        if isinstance(f, tuple) and f and f[0] == "arrmeth":
            _, a, name = f
            if name == "copy" and not args:
                return a.copy()
            if name == "fill" and len(args) == 1 and not kw:
                self.arr_set(a, slice(None), args[0])
                return None
            if name in ("all", "any") and not args and not kw and a.ndim == 1:
                self._comparable(a.data)
                return (all if name == "all" else any)(bool(x) for x in a.data)
            if name == "tolist" and not args and a.ndim == 1:
                return list(a.data)
            raise Unsupported(f"array method .{name}")
        if isinstance(f, tuple) and f and f[0] == "hostmeth":
            _, o, name = f
            for x in list(args) + list(kw.values()):
                if isinstance(x, (Func, tuple)) and (isinstance(x, Func) or (x and x[0] in ("builtin", "hostmeth", "arrmeth"))):
                    raise Unsupported("callable handed to a builtin method")
            if isinstance(o, str) and name in ("format", "format_map"):
                return "<formatted>"
            if isinstance(o, list) and name in ("index", "count", "remove") or isinstance(o, (set, frozenset, dict)):
                self._no_tokens(o)
            return self.host(lambda: getattr(o, name)(*args, **kw))
        if isinstance(f, tuple) and f and f[0] == "builtin":
            return self.builtin(f[1], args, kw)
        raise Unsupported(f"call of {f!r}")

    def copy_(self, v, deep=False, depth=0):
        if depth > 6:
            raise Unsupported("deep structure")
        if isinstance(v, NS):
            n = NS()
            n.d = {k: (self.copy_(x, True, depth + 1) if deep else x) for k, x in v.d.items()}
            return n
        if isinstance(v, Arr):
            return v.copy()
        if isinstance(v, list):
            return [self.copy_(x, True, depth + 1) if deep else x for x in v]
        if isinstance(v, dict):
            return {k: (self.copy_(x, True, depth + 1) if deep else x) for k, x in v.items()}
        if isinstance(v, (str, int, float, bool, type(None), tuple, NaNType, Token)):
            return v
        raise Unsupported(f"copy of {type(v).__name__}")

    def builtin(self, name, args, kw):
        if name in BUILTIN_TYPES:
            if kw and name != "dict":
                raise Unsupported("keywords to a type")
            if name in ("list", "tuple", "set") and len(args) <= 1:
                items = self.iterate(args[0]) if args else []
                return self.host(lambda: BUILTIN_TYPES[name](items))
            if name == "dict":
                if args and not isinstance(args[0], dict):
                    args = [self.iterate(args[0])]
                return self.host(lambda: dict(*args, **kw))
            if name == "str" and len(args) == 1:
                return args[0] if isinstance(args[0], str) else (str(args[0]) if isinstance(args[0], (int, bool)) else "<str>")
            if name in ("int", "bool", "float") and len(args) == 1 and isinstance(args[0], (int, bool, str, float)):
                return self.host(lambda: BUILTIN_TYPES[name](args[0]))
            if name == "bool" and len(args) == 1:
                return self.truth(args[0])
            raise Unsupported(f"{name}(...)")
        if name == "len" and len(args) == 1:
            v = args[0]
            if isinstance(v, Arr):
                return len(v.data)
            if isinstance(v, (list, tuple, str, dict, set, frozenset, range)):
                return len(v)
            raise PyRaise("TypeError", "len()")
        if name == "range":
            if all(isinstance(x, int) and not isinstance(x, bool) and abs(x) < 10000 for x in args) and 1 <= len(args) <= 3:
                return self.host(lambda: range(*args))
            raise Unsupported("range arguments")
        if name == "enumerate":
            start = kw.get("start", args[1] if len(args) > 1 else 0)
            return [(i + start, x) for i, x in enumerate(self.iterate(args[0]))]
        if name == "zip":
            return [tuple(t) for t in zip(*[self.iterate(a) for a in args])]
        if name in ("sorted", "min", "max"):
            if kw.get("key") is not None:
                raise Unsupported("key function")
            items = self.iterate(args[0]) if len(args) == 1 else list(args)
            self._comparable(items)
            if name == "sorted":
                return sorted(items, reverse=bool(kw.get("reverse", False)))
            return self.host(lambda: (min if name == "min" else max)(items))
        if name == "reversed":
            return list(reversed(self.iterate(args[0])))
        if name in ("all", "any") and len(args) == 1:
            return (all if name == "all" else any)(self.truth(x) for x in self.iterate(args[0]))
        if name == "sum" and len(args) == 1:
            items = self.iterate(args[0])
            self._comparable(items)
            return sum(items)
        if name == "isinstance" and len(args) == 2:
            v, t = args
            ts = list(t) if isinstance(t, (tuple, list)) else [t]
            res = False
            for x in ts:
                if isinstance(x, tuple) and x and x[0] == "builtin" and x[1] in BUILTIN_TYPES:
                    if isinstance(v, bool) and x[1] == "int":
                        res = True
                    elif isinstance(v, BUILTIN_TYPES[x[1]]) and not isinstance(v, (Arr, NS)):
                        res = True
                elif isinstance(x, TypeMark) and x.name == "SimpleNamespace":
                    res = res or isinstance(v, NS)
                elif isinstance(x, Mod) and x.name == "numpy.ndarray":
                    res = res or isinstance(v, Arr)
                elif isinstance(x, Mod) and x.name.endswith("SimpleNamespace"):
                    res = res or isinstance(v, NS)
                else:
                    raise Unsupported("isinstance against this type")
            return res
        if name == "getattr" and len(args) in (2, 3) and isinstance(args[1], str):
            if len(args) == 3:
                return self.getattr_(args[0], args[1], default=args[2])
            return self.getattr_(args[0], args[1])
        if name == "hasattr" and len(args) == 2 and isinstance(args[0], NS):
            return args[1] in args[0].d
        if name == "setattr" and len(args) == 3 and isinstance(args[0], NS) and isinstance(args[1], str):
            args[0].d[args[1]] = args[2]
            return None
        if name == "vars" and len(args) == 1 and isinstance(args[0], NS):
            return args[0].d
        if name in ("map", "filter") and len(args) == 2:
            items = self.iterate(args[1])
            if name == "map":
                return [self.apply(args[0], [x], {}) for x in items]
            return [x for x in items if (self.truth(x) if args[0] is None else self.truth(self.apply(args[0], [x], {})))]
        if name == "abs" and len(args) == 1 and isinstance(args[0], (int, float)):
            return abs(args[0])
        raise Unsupported(f"builtin {name}")


class SelfObj:
    pass


class Token:
    """one cell of an input table: the code may move it, not look at it"""
    __slots__ = ("ev", "tab", "lab", "col")

    def __init__(self, ev, tab, lab, col):
        self.ev, self.tab, self.lab, self.col = ev, tab, lab, col

    def __repr__(self):
        return f"E{self.ev}.{self.tab}[{self.lab!r},{self.col}]"

    def __eq__(self, o):
        return isinstance(o, Token) and (self.ev, self.tab, self.lab, self.col) == (o.ev, o.tab, o.lab, o.col)

    def __hash__(self):
        return hash((self.ev, self.tab, self.lab, self.col))


TABLES = (("ext", 2), ("ext_x", 2), ("mx", 3), ("mn", 3), ("mx_x", 3), ("mn_x", 3))


def make_event(k, labels, with_x):
    d = {"drminfo": NS(labels=list(labels), desc=f"category of event {k}", drfile="f", drfunc="g"), "event": f"E{k}", "domain": "time",
         "cases": ["c1", "c2", "c3"]}
    for tab, nc in TABLES:
        if tab.endswith("_x") and not with_x:
            d[tab] = None
        else:
            d[tab] = arr2([[Token(k, tab, lab, c) for c in range(nc)] for lab in labels], nc)
    d["maxcase"] = [f"E{k}:max:{lab}" for lab in labels]
    d["mincase"] = [f"E{k}:min:{lab}" for lab in labels]
    n = NS()
    n.d = d
    return n


def snapshot(v, depth=0):
    if isinstance(v, NS):
        return ("NS", tuple(sorted((k, snapshot(x, depth + 1)) for k, x in v.d.items())))
    if isinstance(v, Arr):
        return ("Arr", v.ndim, repr(v.data))
    if isinstance(v, list):
        return ("list", tuple(snapshot(x, depth + 1) for x in v))
    return repr(v)


def world_class(l1, l2):
    s1, s2 = set(l1), set(l2)
    if l1 == l2:
        return "identical labels"
    if s1 == s2:
        return "same labels in another order"
    if s2 < s1:
        return "incoming labels are a subset"
    if s1 < s2:
        return "incoming labels are a superset"
    if s1 & s2:
        return "label sets overlap"
    return "disjoint label sets"


CLASSES = ("identical labels", "same labels in another order", "incoming labels are a subset", "incoming labels are a superset", "label sets overlap",
           "disjoint label sets")


def worlds():
    labs = ("Fx", "My", "Tz")
    lists = [list(p) for n in (1, 2, 3) for p in itertools.permutations(labs, n)]
    for l1 in lists:
        for l2 in lists:
            for with_x in (True, False):
                yield l1, l2, with_x


def event_of(r):
    """which input a returned category holds data of (read from the tokens of its .ext table)"""
    a = r.d.get("ext")
    if not isinstance(a, Arr) or a.ndim != 2:
        return None
    evs = {c.ev for row in a.data for c in row if isinstance(c, Token)}
    return evs.pop() if len(evs) == 1 else None


def judge(res, ins, l1, l2, before2):
    """{check: None (holds) | detail} for one evaluated world"""
    out = {}
    C_LAB = "both returned categories carry the same row labels, every label of either event once"
    C_ROW = "row i of every returned table is the event's row of label i (a label the event lacks: NaN in .ext, no data, no uninitialised memory)"
    C_CASE = "maxcase / mincase follow their rows"
    C_MUT = "the incoming event is not modified"
    if not (isinstance(res, (tuple, list)) and len(res) == 2 and all(isinstance(r, NS) for r in res)):
        raise Unsupported("the function does not return two categories")
    by_ev = {}
    for pos, r in enumerate(res):
        k = event_of(r)
        if k is None:
            k = pos + 1
        by_ev[k] = r
    if set(by_ev) != {1, 2}:
        out[C_ROW] = "both returned categories hold the data of one event"
        return out
    L = {}
    for k, r in by_ev.items():
        dm = r.d.get("drminfo")
        lab = dm.d.get("labels") if isinstance(dm, NS) else None
        if not isinstance(lab, list) or not all(isinstance(x, str) for x in lab):
            raise Unsupported("row labels of a returned category are not a list of strings")
        L[k] = lab
    want = set(l1) | set(l2)
    out[C_LAB] = None
    if L[1] != L[2]:
        out[C_LAB] = f"envelope rows are labelled {L[1]}, the event's rows {L[2]}: extrema() compares them row by row"
    elif len(set(L[1])) != len(L[1]) or not want <= set(L[1]):
        out[C_LAB] = f"returned labels {L[1]} for inputs {l1} and {l2}"
    out[C_ROW] = out[C_CASE] = None
    for k, r in by_ev.items():
        own = (l1, l2)[k - 1]
        src = ins[k - 1]
        labs = L[k]
        for tab, nc in TABLES:
            a_in = src[tab]
            a = r.d.get(tab, KeyError)
            if a_in is None:
                if a is not None and out[C_ROW] is None:
                    out[C_ROW] = f"event {k} has no .{tab}; the returned category has {a!r}"
                continue
            if not isinstance(a, Arr) or a.ndim != 2:
                raise Unsupported(f".{tab} of a returned category is not a table")
            if len(a.data) != len(labs) or a.ncol != nc:
                if out[C_ROW] is None:
                    out[C_ROW] = f"event {k}: .{tab} has shape {a.shape} for {len(labs)} row labels"
                continue
            for i, lab in enumerate(labs):
                row = a.data[i]
                if lab in own:
                    ok = row == [Token(k, tab, lab, c) for c in range(nc)]
                elif tab == "ext":
                    ok = all(c is NAN for c in row)
                else:
                    ok = not any(isinstance(c, Token) or c is UNINIT for c in row)
                if not ok and out[C_ROW] is None:
                    out[C_ROW] = (f"event {k} (labels {own}) placed on labels {labs}: row {i} (label {lab!r}) of .{tab} holds {row}"
                                  + ("" if lab in own else "; the event has no such label"))
        for nm in ("maxcase", "mincase"):
            c = r.d.get(nm)
            if not isinstance(c, list):
                raise Unsupported(f".{nm} of a returned category is not a list")
            if len(c) != len(labs):
                if out[C_CASE] is None:
                    out[C_CASE] = f"event {k}: .{nm} has {len(c)} entries for {len(labs)} row labels"
                continue
            for i, lab in enumerate(labs):
                side = "max" if nm == "maxcase" else "min"
                if lab in own:
                    ok = c[i] == f"E{k}:{side}:{lab}"
                else:
                    ok = not (isinstance(c[i], str) and c[i].startswith(f"E{k}:"))
                if not ok and out[C_CASE] is None:
                    out[C_CASE] = f"event {k} (labels {own}) placed on labels {labs}: .{nm}[{i}] (label {lab!r}) is {c[i]!r}"
    out[C_MUT] = None if snapshot(ins_obj(ins, 2)) == before2 else "the incoming event's own tables / labels were changed by the call"
    return out


def ins_obj(ins, k):
    return ins[k - 1]["__obj__"]


def find_anchor(ctx):
    """the function of dr_results.py that calls merge_lists"""
    mod = ctx.src.mod(RES)
    found = []
    for q, fn in mod.funcs.items():
        for n in walk_no_nested(fn):
            if isinstance(n, ast.Call):
                d = dotted(n.func)
                if d and d.split(".")[-1] == "merge_lists":
                    found.append((q, fn))
                    break
    return mod, found


def r7_rows_by_label(ctx):
    from .core import AnchorError
    mod, found = find_anchor(ctx)
    if len(found) != 1:
        raise AnchorError(f"dr_results.py: one function that calls merge_lists (the row-compatibility step of form_extreme); found {[q for q, _ in found]}")
    qual, fn = found[0]
    ctx.src.funcs_consulted.add(f"{RES}:{qual}")
    a = fn.args
    pnames = [x.arg for x in a.posonlyargs + a.args]
    is_method = bool(pnames) and pnames[0] in ("self", "cls") and any(isinstance(x, ast.ClassDef) for x in [getattr(fn, "_vparent", None)])
    if is_method and "staticmethod" in [dotted(d) for d in fn.decorator_list]:
        is_method = False
    npar = len(pnames) - (1 if is_method else 0)
    if npar != 2:
        ctx.error(f"{qual}: the row-compatibility step takes the running envelope and the incoming event", fn, f"parameters {pnames}")
        return
    agg = {}         # (check, class) -> [n_ok, first failure detail, first undecided detail]
    nworlds = nclean = 0
    undecided = {}
    for l1, l2, with_x in worlds():
        nworlds += 1
        cls = world_class(l1, l2)
        M = Mini(mod.tree)
        env = M.env_for(fn)
        e1, e2 = make_event(1, l1, with_x), make_event(2, l2, with_x)
        ins = []
        for ev in (e1, e2):
            d = {tab: (None if ev.d[tab] is None else True) for tab, _ in TABLES}
            d["__obj__"] = ev
            ins.append(d)
        before2 = snapshot(e2)
        f = Func(fn, env, bound_self=SelfObj() if is_method else None)
        try:
            res = M.call_func(f, [e1, e2], {})
            verdict = judge(res, ins, l1, l2, before2)
        except Unsupported as ex:
            undecided.setdefault((cls, f"no model: {ex}"), (l1, l2, with_x))
            continue
        except PyRaise as ex:
            undecided.setdefault((cls, f"the evaluated code raises {ex}"), (l1, l2, with_x))
            continue
        except RecursionError:
            undecided.setdefault((cls, "recursion"), (l1, l2, with_x))
            continue
        nclean += 1
        for chk, detail in verdict.items():
            e = agg.setdefault((chk, cls), [0, None])
            if detail is None:
                e[0] += 1
            elif e[1] is None:
                e[1] = {"envelope labels": l1, "event labels": l2, "abscissa tables": with_x, "found": detail}
    where = fn
    for cls in CLASSES:
        und = [(k, w) for k, w in undecided.items() if k[0] == cls]
        checks = sorted({c for c, k in agg if k == cls})
        if not checks and not und:
            ctx.error(f"form_extreme [{cls}]: worlds evaluated", where, "none")
            continue
        for chk in checks:
            n_ok, bad = agg[(chk, cls)]
            inst = f"form_extreme [{cls}]: {chk}"
            if bad is not None:
                ctx.fail(inst, where, bad, key=f"C16-R7|{cls}|{chk}")
            elif und:
                ctx.error(inst, where, {"undecided world": und[0][1], "reason": und[0][0][1]})
            else:
                ctx.ok(inst, where, f"{n_ok} worlds")
        if not checks and und:
            ctx.error(f"form_extreme [{cls}]: rows are placed by label", where, {"undecided world": und[0][1], "reason": und[0][0][1]})
    msg = f"form_extreme: {qual} evaluated in {nworlds} worlds of two label lists over three labels"
    if nclean == nworlds:
        ctx.ok(msg, where, None, False)
    else:
        ctx.error(msg, where, f"{nclean} of {nworlds} evaluated completely")
