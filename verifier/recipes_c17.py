"""Self-test recipes of C17 (format of verifier/selftest.py RECIPES): text edits of /repo applied to a scratch copy.

break   - the edit changes the history SolveNewmark / SolveCDF produce; the listed rule must report a VIOLATION
neutral - the edit is a behaviour-preserving refactoring; the checker must stay silent
"""
NM = "pyyeti/ode/solvenewmark.py"
UNC = "pyyeti/ode/solveunc.py"
CDF = "pyyeti/ode/solvecdf.py"
BASE = "pyyeti/ode/_base_ode_class.py"

RECIPES = [
    # ---- start-up step (R2)
    ("C17", "break", ["C17-R2"], NM, "            d[self.nonrf, -1] = u_1\n", "            d[self.nonrf, -2] = u_1\n",
     "u_-1 parked in the wrong column for the nonlinear functions"),
    ("C17", "break", ["C17-R2"], NM, "            d[self.nonrf, -1] = u_1\n", "            if d0.any():\n                d[self.nonrf, -1] = u_1\n",
     "u_-1 stored only under a data-dependent test"),
    ("C17", "break", ["C17-R2"], NM, "                z[:, 0] = z0\n", "                z[:, 1] = z0\n", "z at j = 0 recorded in the wrong column"),
    ("C17", "break", ["C17-R2"], NM, "            self.A1 = la.lu_solve(self.Ad, A1, overwrite_b=True)", "            self.A1 = la.lu_solve(self.Ad, A1, trans=1, overwrite_b=True)",
     "A1 solved with the transposed A (coupled arm; invisible with commuting symbols)"),
    ("C17", "break", ["C17-R2"], NM, "                mterm = np.diag(np.ones(self.ksize) / sqh)", "                mterm = np.ones((self.ksize, self.ksize)) / sqh",
     "identity mass of the coupled arm replaced by a matrix of ones"),
    ("C17", "break", ["C17-R2"], NM, "            F_1 = la.lu_solve(\n                self.Ad, (self.k @ u_1 + self.b @ v0) / 3, overwrite_b=True\n            )",
     "            F_1 = la.lu_solve(\n                self.Ad, (self.k @ d0 + self.b @ v0) / 3, overwrite_b=True\n            )", "F_-1 built from u_0 (coupled arm)"),
    ("C17", "break", ["C17-R2"], NM, "            force = la.lu_solve(self.Ad, force, overwrite_b=True)", "            force = la.lu_solve(self.Ad, force, trans=1, overwrite_b=True)",
     "returned force scaled by inv(A.T)"),
    # ---- recurrence (R1) and differences / nonlinear terms (R3)
    ("C17", "break", ["C17-R1"], NM, "                    De = 3 * F[:, -1] + A1 @ D[:, -1] + A0 @ D[:, -2]", "                    De = 3 * F[:, -1] + D[:, -1] @ A1 + A0 @ D[:, -2]",
     "matrix product order in the extra step (coupled arm)"),
    ("C17", "break", ["C17-R1", "C17-R3"], NM, "                            + _get_nonlin(j - 1)\n                            + A1 * D[:, j - 1]",
     "                            + _get_nonlin(j)\n                            + A1 * D[:, j - 1]", "nonlinear force of step j used for step j (uncoupled arm)"),
    ("C17", "break", ["C17-R1"], NM, "                    for j in range(2, nt):\n                        D[:, j] = (\n                            F[:, j]\n                            + F[:, j - 1]\n                            + F[:, j - 2]\n                            + A1 @ D[:, j - 1]",
     "                    for j in range(2, nt - 1):\n                        D[:, j] = (\n                            F[:, j]\n                            + F[:, j - 1]\n                            + F[:, j - 2]\n                            + A1 @ D[:, j - 1]",
     "last displacement column never computed (coupled linear arm)"),
    ("C17", "break", ["C17-R3"], NM, "                        self.z[key][:, j] = z\n", "                        self.z[key][:, j - 1] = z\n", "z recorded one column early"),
    ("C17", "break", ["C17-R1", "C17-R3"], NM, "                        N += T @ z\n                    return N", "                        N = T @ z\n                    return N",
     "only the last nonlinear term counts"),
    ("C17", "break", ["C17-R3"], NM, "                T = la.lu_solve(self.Ad, v[1])", "                T = v[1]", "transform not pre-multiplied by inv(A) (coupled arm)"),
    ("C17", "break", ["C17-R3"], NM, "            A[:, 1:-1] = (D[:, 2:] - 2 * D[:, 1:-1] + D[:, :-2]) / sqh", "            A[:, 1:-1] = (D[:, 2:] - 2 * D[:, 1:-1] + D[:, :-2]) / h2",
     "acceleration divided by 2h"),
    # ---- SolveCDF == SolveUnc (R4)
    ("C17", "break", ["C17-R4"], CDF, "        super().__init__(m, b, k, h, rb, rf, order, pre_eig, cd_as_force=True)", "        super().__init__(m, b, k, h, rf, rb, order, pre_eig, cd_as_force=True)",
     "rb / rf swapped on the way to SolveUnc"),
    ("C17", "break", ["C17-R4"], CDF, "    def __init__(self, m, b, k, h=None, rb=None, rf=None, order=1, pre_eig=False):", "    def __init__(self, m, b, k, h=None, rb=None, rf=None, order=0, pre_eig=False):",
     "SolveCDF's default order differs from SolveUnc's"),
    ("C17", "break", ["C17-R4"], BASE, "                    bo[i, i] = 0.0  # off diagonal damping\n", "                    pass\n", "C_od keeps the diagonal of the damping"),
    ("C17", "break", ["C17-R4"], UNC, "                if self.cdforces:\n                    self._solve_real_unc_cdforces(d, v, force)", "                if self.cdforces or self.order == 0:\n                    self._solve_real_unc_cdforces(d, v, force)",
     "damping-as-force solver reachable without cdforces"),
    # ---- damping as force (R5)
    ("C17", "break", ["C17-R5"], UNC, "                    tmp = np.eye(self.ksize) + Bp * self.bo", "                    tmp = np.eye(self.ksize) + self.bo * Bp.T",
     "Bp scales the columns of C_od in alpha"),
    ("C17", "break", ["C17-R5"], UNC, "                    self.pc.alpha = la.solve(tmp.T, self.bo.T).T", "                    self.pc.alpha = la.solve(tmp.T, self.bo.T)",
     "alpha left transposed"),
    ("C17", "break", ["C17-R5"], UNC, "            dmpfrc1 = alpha @ v_part\n            D[:, i + 1] = di = F * di", "            dmpfrc1 = v_part @ alpha\n            D[:, i + 1] = di = F * di",
     "alpha applied from the right"),
    ("C17", "break", ["C17-R5"], UNC, "            V[:, i + 1] = vi = v_part - Bp * dmpfrc1\n            dmpfrc0 = dmpfrc1\n\n        if not self.slices:\n            d[kdof] = D\n            v[kdof] = V\n\n    def _solve_real_unc_generator(",
     "            V[:, i + 1] = vi = v_part - Bp * dmpfrc1\n\n        if not self.slices:\n            d[kdof] = D\n            v[kdof] = V\n\n    def _solve_real_unc_generator(",
     "damping force not carried to the next step"),
    ("C17", "break", ["C17-R1"], NM, "        d, v, a, F = self._init_dva(force, d0, v0)", "        d, v, a, F = self._init_dva(force, v0, d0)",
     "initial conditions swapped on the way to the start-up step"),
    ("C17", "break", ["C17-R2"], NM, "        self.nonlin_terms = 0\n        if self.ksize == 0:", "        self.nonlin_terms = 1\n        if self.ksize == 0:",
     "a new solver claims a nonlinear term"),
    ("C17", "break", ["C17-R2"], NM, "        d0 = np.zeros(self.ksize) if d0 is None else d0[self.nonrf]", "        d0 = np.zeros(self.ksize) if v0 is None else d0[self.nonrf]",
     "default initial displacement keyed on v0"),
    # ---- partitions given as index vectors / rf modes
    ("C17", "break", ["C17-R1"], NM, "                d[self.kdof] = D\n", "                pass\n", "displacements not copied back for index-vector partitions"),
    ("C17", "break", ["C17-R5"], UNC, "        if not self.slices:\n            d[kdof] = D\n            v[kdof] = V\n\n    def _solve_real_unc_generator(",
     "        if not self.slices:\n            d[kdof] = D\n\n    def _solve_real_unc_generator(", "velocities of the damping-as-force solver not copied back"),
    ("C17", "break", ["C17-R2"], NM, "                d[self.rf] = self.ikrf * force[self.rf]", "                d[self.rf] = force[self.rf] / self.ikrf",
     "rf equations divided by the flexibility"),
    # ---- behaviour-preserving refactorings
    ("C17", "neutral", [], NM, "            d[self.nonrf, -1] = u_1\n", "            if v0.any():\n                d[self.nonrf, -1] = u_1\n            else:\n                d[self.nonrf, -1] = d0 - v0 * h\n",
     "the same store on both arms of a data-dependent test"),
    ("C17", "neutral", [], NM, "                    De = 3 * F[:, -1] + A1 * D[:, -1] + A0 * D[:, -2]",
     "                    f_last = F[:, nt - 1]\n                    De = 3 * f_last + A1 * D[:, nt - 1] + A0 * D[:, nt - 2]", "explicit last indices and a temporary"),
    ("C17", "neutral", [], NM, "        u_1 = d0 - v0 * h\n", "        u_prev = d0 - v0 * h\n        u_1 = u_prev\n", "alias of u_-1"),
    ("C17", "neutral", [], NM, "            d[self.nonrf, -1] = u_1\n", "            d[self.nonrf, nt - 1] = u_1\n", "explicit index of the last column"),
    ("C17", "neutral", [], NM, "                T = la.lu_solve(self.Ad, v[1])", "                T = la.lu_solve(self.Ad, v[1], trans=0)", "explicit trans=0"),
    ("C17", "neutral", [], NM, "            V[:, -1] = (De - D[:, -2]) / h2\n", "            Vt = V.T\n            Vt[-1] = (De - D[:, -2]) / h2\n", "store through a transposed view"),
    ("C17", "neutral", [], UNC, "                    self.pc.alpha = la.solve(tmp.T, self.bo.T).T", "                    self.pc.alpha = np.transpose(la.solve(np.transpose(tmp), np.transpose(self.bo)))",
     "np.transpose for .T"),
    ("C17", "neutral", [], UNC, "                    tmp = np.eye(self.ksize) + Bp * self.bo", "                    tmp = np.eye(self.ksize) + np.diag(self.pc.Bp) @ self.bo",
     "diag(Bp) @ C_od for the row scaling"),
    ("C17", "neutral", [], UNC, "                if self.cdforces:\n                    self._solve_real_unc_cdforces(d, v, force)", "                cdf = self.cdforces\n                if cdf:\n                    self._solve_real_unc_cdforces(d, v, force)",
     "local alias of self.cdforces"),
    ("C17", "neutral", [], CDF, "        return super().generator(nt, F0, d0, v0, static_ic)", "        gen = super().generator(nt, F0, static_ic=static_ic, v0=v0, d0=d0)\n        return gen",
     "keyword arguments and a temporary"),
    ("C17", "neutral", [], BASE, "        if b.ndim == 1 or (b.ndim == 2 and ytools.isdiag(b)):\n            unc += 1\n        elif cd_as_force:",
     "        b_is_diag = b.ndim == 1 or (b.ndim == 2 and ytools.isdiag(b))\n        if b_is_diag:\n            unc += 1\n        elif cd_as_force:", "named test"),
]

# ---- third pass: the rules run the public entry points (constructor -> def_nonlin -> tsolve / generator -> finalize) and decide on the
# returned histories; every construct the interpreter learnt in this pass has a behaviour-preserving use (neutral) and a broken use (break)
_NL_BODY = ("                    N = 0.0\n                    for key, (func, T, args) in self.nl_dct.items():\n                        z = func(D, j, h, **args)\n"
            "                        self.z[key][:, j] = z\n                        N += T @ z\n                    return N")
_GEN = ("                    def terms():\n                        for key, (func, T, args) in self.nl_dct.items():\n"
        "                            z = func(D, j, h, **args)\n                            self.z[key][:, j] = z\n                            yield T @ z\n\n")
_UNC_LOOP = ("                    for j in range(2, nt):\n                        D[:, j] = (\n                            F[:, j]\n                            + F[:, j - 1]\n"
             "                            + F[:, j - 2]\n                            + A1 * D[:, j - 1]\n                            + A0 * D[:, j - 2]\n                        )\n")
_LAZY = ("                    steps = (\n                        F[:, j] + F[:, j - 1] + F[:, j - 2] + A1 * D[:, j - 1] + A0 * D[:, j - 2]\n"
         "                        for j in range(2, nt)\n                    )\n")
_LOCAL_CLASS = ("                class _Solve:\n                    def __init__(self, fac):\n                        self.fac = fac\n\n"
                "                    def __call__(self, rhs):\n                        return la.lu_solve(self.fac, rhs%s)\n\n                T = _Solve(self.Ad)(v[1])")
_PROP_OLD = "        if self.nonlin_terms:\n            sol.z = self.z\n        return sol\n\n    def def_nonlin(self, dct):"
_PROP_NEW = ("        if self._has_nl:\n            sol.z = self.z\n        return sol\n\n    @property\n    def _has_nl(self):\n        return self.nonlin_terms > %d\n\n"
             "    def def_nonlin(self, dct):")

RECIPES += [
    # generator function (its body runs one yield at a time, interleaved with the consumer as in CPython)
    ("C17", "neutral", [], NM, _NL_BODY, _GEN + "                    N = 0.0\n                    for t in terms():\n                        N += t\n                    return N",
     "nonlinear terms produced by a local generator function"),
    ("C17", "break", ["C17-R1", "C17-R2"], NM, _NL_BODY,
     _GEN + "                    N = 0.0\n                    it = terms()\n                    next(it)\n                    for t in it:\n                        N += t\n                    return N",
     "generator function: the first term is evaluated and recorded but not added"),
    # lazy generator expression: every element must be computed after the previous one has been stored
    ("C17", "neutral", [], NM, _UNC_LOOP, _LAZY + "                    for j, col in enumerate(steps, 2):\n                        D[:, j] = col\n",
     "recurrence as a lazily consumed generator expression"),
    ("C17", "break", ["C17-R1"], NM, _UNC_LOOP, _LAZY + "                    for j, col in enumerate(list(steps), 2):\n                        D[:, j] = col\n",
     "generator expression consumed eagerly: every column is computed before any is stored"),
    ("C17", "break", ["C17-R1", "C17-R2"], NM, _UNC_LOOP, _LAZY + "                    for j, col in enumerate(steps, 1):\n                        D[:, j] = col\n",
     "enumerate started one column early"),
    # starred assignment target
    ("C17", "neutral", [], NM, "        d, v, a, F = self._init_dva(force, d0, v0)", "        *dva, F = self._init_dva(force, d0, v0)\n        d, v, a = dva", "starred unpacking of the start-up result"),
    ("C17", "break", ["C17-R1", "C17-R2", "C17-R3"], NM, "        d, v, a, F = self._init_dva(force, d0, v0)", "        *dva, F = self._init_dva(force, d0, v0)\n        d, a, v = dva",
     "starred unpacking with velocity and acceleration swapped"),
    # the (lu, piv) pair of lu_factor taken apart and put together again
    ("C17", "neutral", [], NM, "            self.A1 = la.lu_solve(self.Ad, A1, overwrite_b=True)", "            lu, piv = self.Ad\n            self.A1 = la.lu_solve((lu, piv), A1, overwrite_b=True)",
     "lu_factor's result unpacked and re-packed"),
    ("C17", "break", ["C17-R1", "C17-R2"], NM, "            self.A1 = la.lu_solve(self.Ad, A1, overwrite_b=True)",
     "            lu, piv = self.Ad\n            piv0 = la.lu_factor(A0)[1]\n            self.A1 = la.lu_solve((lu, piv0), A1, overwrite_b=True)",
     "factors of A used with the pivots of another matrix"),
    # local class with __init__ / __call__
    ("C17", "neutral", [], NM, "                T = la.lu_solve(self.Ad, v[1])", _LOCAL_CLASS % "", "solve wrapped in a local callable class"),
    ("C17", "break", ["C17-R1", "C17-R2"], NM, "                T = la.lu_solve(self.Ad, v[1])", _LOCAL_CLASS % ", trans=1", "local callable class solving with the transposed matrix"),
    # property
    ("C17", "neutral", [], NM, _PROP_OLD, _PROP_NEW % 0, "test moved into a property"),
    ("C17", "break", ["C17-R3"], NM, _PROP_OLD, _PROP_NEW % 2, "property with the wrong threshold: z is not returned for two terms"),
    # getattr / setattr with literal and concatenated names
    ("C17", "neutral", [], NM, "            sol.z = self.z\n", "            setattr(sol, \"z\", getattr(self, \"z\"))\n", "setattr / getattr with literal names"),
    ("C17", "break", ["C17-R3"], NM, "            sol.z = self.z\n", "            setattr(sol, \"zz\", getattr(self, \"z\"))\n", "setattr under the wrong name"),
    ("C17", "neutral", [], UNC, "        Bp = pc.Bp\n        D = d[kdof]", "        Bp = getattr(pc, \"B\" + \"p\")\n        D = d[kdof]", "attribute name built from parts"),
    ("C17", "break", ["C17-R5"], UNC, "        Bp = pc.Bp\n        D = d[kdof]", "        Bp = getattr(pc, \"A\" + \"p\")\n        D = d[kdof]", "attribute name built from the wrong parts"),
    # ufunc with out= on a view
    ("C17", "neutral", [], UNC, "            V[:, i + 1] = vi = v_part - Bp * dmpfrc1\n            dmpfrc0 = dmpfrc1\n\n        if not self.slices:\n            d[kdof] = D",
     "            np.subtract(v_part, Bp * dmpfrc1, out=V[:, i + 1])\n            vi = V[:, i + 1]\n            dmpfrc0 = dmpfrc1\n\n        if not self.slices:\n            d[kdof] = D",
     "velocity update written through out= into the column"),
    ("C17", "break", ["C17-R5"], UNC, "            V[:, i + 1] = vi = v_part - Bp * dmpfrc1\n            dmpfrc0 = dmpfrc1\n\n        if not self.slices:\n            d[kdof] = D",
     "            np.subtract(v_part, Bp * dmpfrc1, out=V[:, i])\n            vi = V[:, i]\n            dmpfrc0 = dmpfrc1\n\n        if not self.slices:\n            d[kdof] = D",
     "out= pointing at the current column"),
    # walrus + next(it, sentinel) + for/else + try/finally
    ("C17", "neutral", [], NM, "                    De = 3 * F[:, -1] + A1 @ D[:, -1] + A0 @ D[:, -2]",
     "                    for _ in ():\n                        pass\n                    else:\n                        De = 3 * F[:, -1] + A1 @ D[:, -1] + A0 @ D[:, -2]",
     "extra step in the else arm of an empty for"),
    # representation of a private contract: the start-up step hands its result over as a record
    ("C17", "neutral", [], BASE, "        return SimpleNamespace(d=d, v=v, a=a, h=self.h, t=t)", "        out = SimpleNamespace(d=d, v=v, a=a)\n        out.h, out.t = self.h, t\n        return out",
     "solution record filled in two steps"),
    # the public path runs through the base class: breaks there are breaks of the history
    ("C17", "break", ["C17-R2"], BASE, "            d[self.nonrf, 0] = d0[self.nonrf]", "            d[self.nonrf, 0] = d0[self.rf]", "initial displacement taken from the rf rows"),
    ("C17", "break", ["C17-R2", "C17-R6"], BASE, "        nonrf[rf] = False\n        nonrf = np.nonzero(nonrf)[0]", "        nonrf[rf] = False\n        nonrf = np.nonzero(nonrf)[0][::-1]", "non-rf partition reversed"),
    ("C17", "break", ["C17-R4"], UNC, "            if self.cdforces:\n                generator = self._solve_real_unc_generator_cdforces(d, v, F0)", "            if not self.cdforces:\n                generator = self._solve_real_unc_generator_cdforces(d, v, F0)",
     "damping-as-force generator chosen when cdforces is False"),
]

_NL_NONLOCAL = ("                    N = 0.0\n\n                    def add(term):\n                        nonlocal N\n                        N = %s\n\n"
                "                    for key, (func, T, args) in self.nl_dct.items():\n                        z = func(D, j, h, **args)\n"
                "                        self.z[key][:, j] = z\n                        add(T @ z)\n                    return N")
_RET_OLD = "        a[self.nonrf, 0] = (d[self.nonrf, 1] - 2 * d0 + u_1) / (h * h)\n        return d, v, a, force"
_RET_NT = ("        a[self.nonrf, 0] = (d[self.nonrf, 1] - 2 * d0 + u_1) / (h * h)\n        from collections import namedtuple\n\n"
           "        Start = namedtuple(\"Start\", \"d v a force\")\n        return Start(%s)")
_RET_CLS = ("        a[self.nonrf, 0] = (d[self.nonrf, 1] - 2 * d0 + u_1) / (h * h)\n        from typing import NamedTuple\n\n"
            "        class Start(NamedTuple):\n            d: object\n            v: object\n            a: object\n            force: object\n\n        return Start(%s)")
_SOL_OLD = "        return SimpleNamespace(d=d, v=v, a=a, h=self.h, t=t)"
_SOL_DC = ("        from dataclasses import dataclass\n\n        @dataclass\n        class _Sol:\n            d: object\n            v: object\n            a: object\n"
           "            h: object = None\n            t: object = None\n\n        return _Sol(%s, h=self.h, t=t)")
_CPL_OLD = "                            + F[:, j - 2]\n                            + A1 @ D[:, j - 1]\n                            + A0 @ D[:, j - 2]\n"

RECIPES += [
    ("C17", "neutral", [], NM, _NL_BODY, _NL_NONLOCAL % "N + term", "nonlinear force accumulated through a nonlocal"),
    ("C17", "break", ["C17-R1", "C17-R2"], NM, _NL_BODY, _NL_NONLOCAL % "term", "nonlocal accumulator overwritten instead of added to"),
    ("C17", "neutral", [], NM, _RET_OLD, _RET_NT % "d, v, a, force", "start-up result as a namedtuple (local import)"),
    ("C17", "break", ["C17-R2", "C17-R3"], NM, _RET_OLD, _RET_NT % "d, a, v, force", "namedtuple fields filled in the wrong order"),
    ("C17", "neutral", [], NM, _RET_OLD, _RET_CLS % "d, v, a, force", "start-up result as a typing.NamedTuple class"),
    ("C17", "break", ["C17-R2", "C17-R3"], NM, _RET_OLD, _RET_CLS % "v=v, d=d, force=force, a=v", "NamedTuple record with the velocity in the acceleration field"),
    ("C17", "neutral", [], BASE, _SOL_OLD, _SOL_DC % "d=d, v=v, a=a", "solution record as a local dataclass"),
    ("C17", "break", ["C17-R1", "C17-R2"], BASE, _SOL_OLD, _SOL_DC % "d=v, v=d, a=a", "dataclass record with d and v exchanged"),
    ("C17", "neutral", [], NM, _CPL_OLD, "                            + F[:, j - 2]\n                            + np.einsum(\"ij,j->i\", A1, D[:, j - 1])\n                            + A0 @ D[:, j - 2]\n",
     "matrix-vector product as einsum"),
    ("C17", "break", ["C17-R1"], NM, _CPL_OLD, "                            + F[:, j - 2]\n                            + np.einsum(\"ji,j->i\", A1, D[:, j - 1])\n                            + A0 @ D[:, j - 2]\n",
     "einsum with the transposed subscripts"),
    ("C17", "neutral", [], NM, _CPL_OLD, "                            + F[:, j - 2]\n                            + np.hstack((A1, A0)) @ np.concatenate((D[:, j - 1], D[:, j - 2]))\n",
     "the two products as one block product (exact-arithmetic equivalent)"),
    ("C17", "break", ["C17-R1"], NM, _CPL_OLD, "                            + F[:, j - 2]\n                            + np.hstack((A1, A0)) @ np.concatenate((D[:, j - 2], D[:, j - 1]))\n",
     "block product with the two displacement columns exchanged"),
]

_DIFF_OLD = "            V[:, 1:-1] = (D[:, 2:] - D[:, :-2]) / h2\n            V[:, -1] = (De - D[:, -2]) / h2\n"
_DE_CPL = "                    De = 3 * F[:, -1] + A1 @ D[:, -1] + A0 @ D[:, -2]"
_PARTIAL = ("                    from functools import partial\n                    from operator import matmul\n\n                    t1 = partial(matmul, %s)\n"
            "                    De = 3 * F[:, -1] + t1(D[:, -1]) + A0 @ D[:, -2]")
RECIPES += [
    ("C17", "neutral", [], NM, _DIFF_OLD, "            ext = np.column_stack((D, De))\n            V[:, 1:] = (ext[:, 2:] - ext[:, :-2]) / h2\n",
     "all velocities from one difference over the history extended by the extra step"),
    ("C17", "break", ["C17-R1", "C17-R3"], NM, _DIFF_OLD, "            ext = np.column_stack((De, D))\n            V[:, 1:] = (ext[:, 2:] - ext[:, :-2]) / h2\n",
     "extra step stacked in front of the history"),
    ("C17", "neutral", [], NM, _DE_CPL, _PARTIAL % "A1", "product through functools.partial and operator.matmul (local imports)"),
    ("C17", "break", ["C17-R1"], NM, _DE_CPL, _PARTIAL % "A0", "partial bound to the wrong coefficient matrix"),
]

RECIPES += [
    ("C17", "neutral", [], BASE, "                    i = np.arange(bo.shape[0])\n                    bo[i, i] = 0.0  # off diagonal damping\n", "                    np.fill_diagonal(bo, 0.0)\n",
     "np.fill_diagonal for the zero diagonal of C_od"),
    ("C17", "break", ["C17-R4", "C17-R5"], BASE, "                    i = np.arange(bo.shape[0])\n                    bo[i, i] = 0.0  # off diagonal damping\n", "                    np.fill_diagonal(bo, 1.0)\n",
     "C_od with a unit diagonal"),
    ("C17", "neutral", [], BASE, "                bd = np.diag(b).copy()", "                bd = b.diagonal().copy()", "ndarray.diagonal for np.diag"),
    ("C17", "break", ["C17-R4", "C17-R5"], BASE, "                bd = np.diag(b).copy()", "                bd = b[0].copy()", "first row of the damping taken for its diagonal"),
]
