"""Self-test recipes of C17 (format of verifier/selftest.py RECIPES): text edits of /repo applied to a scratch copy.

break   - the edit changes the history SolveNewmark / SolveCDF produce; the listed rule must report a VIOLATION
neutral - the edit is a behaviour-preserving refactoring; the checker must stay silent
"""
NM = "pyyeti/ode/solvenewmark.py"
UNC = "pyyeti/ode/solveunc.py"
CDF = "pyyeti/ode/solvecdf.py"
BASE = "pyyeti/ode/_base_ode_class.py"

RECIPES = [
    # ---- start-up step (R2)
    ("C17", "break", ["C17-R2"], NM, "            d[self.nonrf, -1] = u_1\n", "            d[self.nonrf, -2] = u_1\n",
     "u_-1 parked in the wrong column for the nonlinear functions"),
    ("C17", "break", ["C17-R2"], NM, "            d[self.nonrf, -1] = u_1\n", "            if d0.any():\n                d[self.nonrf, -1] = u_1\n",
     "u_-1 stored only under a data-dependent test"),
    ("C17", "break", ["C17-R2"], NM, "                z[:, 0] = z0\n", "                z[:, 1] = z0\n", "z at j = 0 recorded in the wrong column"),
    ("C17", "break", ["C17-R2"], NM, "            self.A1 = la.lu_solve(self.Ad, A1, overwrite_b=True)", "            self.A1 = la.lu_solve(self.Ad, A1, trans=1, overwrite_b=True)",
     "A1 solved with the transposed A (coupled arm; invisible with commuting symbols)"),
    ("C17", "break", ["C17-R2"], NM, "                mterm = np.diag(np.ones(self.ksize) / sqh)", "                mterm = np.ones((self.ksize, self.ksize)) / sqh",
     "identity mass of the coupled arm replaced by a matrix of ones"),
    ("C17", "break", ["C17-R2"], NM, "            F_1 = la.lu_solve(\n                self.Ad, (self.k @ u_1 + self.b @ v0) / 3, overwrite_b=True\n            )",
     "            F_1 = la.lu_solve(\n                self.Ad, (self.k @ d0 + self.b @ v0) / 3, overwrite_b=True\n            )", "F_-1 built from u_0 (coupled arm)"),
    ("C17", "break", ["C17-R2"], NM, "            force = la.lu_solve(self.Ad, force, overwrite_b=True)", "            force = la.lu_solve(self.Ad, force, trans=1, overwrite_b=True)",
     "returned force scaled by inv(A.T)"),
    # ---- recurrence (R1) and differences / nonlinear terms (R3)
    ("C17", "break", ["C17-R1"], NM, "                    De = 3 * F[:, -1] + A1 @ D[:, -1] + A0 @ D[:, -2]", "                    De = 3 * F[:, -1] + D[:, -1] @ A1 + A0 @ D[:, -2]",
     "matrix product order in the extra step (coupled arm)"),
    ("C17", "break", ["C17-R1", "C17-R3"], NM, "                            + _get_nonlin(j - 1)\n                            + A1 * D[:, j - 1]",
     "                            + _get_nonlin(j)\n                            + A1 * D[:, j - 1]", "nonlinear force of step j used for step j (uncoupled arm)"),
    ("C17", "break", ["C17-R1"], NM, "                    for j in range(2, nt):\n                        D[:, j] = (\n                            F[:, j]\n                            + F[:, j - 1]\n                            + F[:, j - 2]\n                            + A1 @ D[:, j - 1]",
     "                    for j in range(2, nt - 1):\n                        D[:, j] = (\n                            F[:, j]\n                            + F[:, j - 1]\n                            + F[:, j - 2]\n                            + A1 @ D[:, j - 1]",
     "last displacement column never computed (coupled linear arm)"),
    ("C17", "break", ["C17-R3"], NM, "                        self.z[key][:, j] = z\n", "                        self.z[key][:, j - 1] = z\n", "z recorded one column early"),
    ("C17", "break", ["C17-R1", "C17-R3"], NM, "                        N += T @ z\n                    return N", "                        N = T @ z\n                    return N",
     "only the last nonlinear term counts"),
    ("C17", "break", ["C17-R3"], NM, "                T = la.lu_solve(self.Ad, v[1])", "                T = v[1]", "transform not pre-multiplied by inv(A) (coupled arm)"),
    ("C17", "break", ["C17-R3"], NM, "            A[:, 1:-1] = (D[:, 2:] - 2 * D[:, 1:-1] + D[:, :-2]) / sqh", "            A[:, 1:-1] = (D[:, 2:] - 2 * D[:, 1:-1] + D[:, :-2]) / h2",
     "acceleration divided by 2h"),
    # ---- SolveCDF == SolveUnc (R4)
    ("C17", "break", ["C17-R4"], CDF, "        super().__init__(m, b, k, h, rb, rf, order, pre_eig, cd_as_force=True)", "        super().__init__(m, b, k, h, rf, rb, order, pre_eig, cd_as_force=True)",
     "rb / rf swapped on the way to SolveUnc"),
    ("C17", "break", ["C17-R4"], CDF, "    def __init__(self, m, b, k, h=None, rb=None, rf=None, order=1, pre_eig=False):", "    def __init__(self, m, b, k, h=None, rb=None, rf=None, order=0, pre_eig=False):",
     "SolveCDF's default order differs from SolveUnc's"),
    ("C17", "break", ["C17-R4"], BASE, "                    bo[i, i] = 0.0  # off diagonal damping\n", "                    pass\n", "C_od keeps the diagonal of the damping"),
    ("C17", "break", ["C17-R4"], UNC, "                if self.cdforces:\n                    self._solve_real_unc_cdforces(d, v, force)", "                if self.cdforces or self.order == 0:\n                    self._solve_real_unc_cdforces(d, v, force)",
     "damping-as-force solver reachable without cdforces"),
    # ---- damping as force (R5)
    ("C17", "break", ["C17-R5"], UNC, "                    tmp = np.eye(self.ksize) + Bp * self.bo", "                    tmp = np.eye(self.ksize) + self.bo * Bp.T",
     "Bp scales the columns of C_od in alpha"),
    ("C17", "break", ["C17-R5"], UNC, "                    self.pc.alpha = la.solve(tmp.T, self.bo.T).T", "                    self.pc.alpha = la.solve(tmp.T, self.bo.T)",
     "alpha left transposed"),
    ("C17", "break", ["C17-R5"], UNC, "            dmpfrc1 = alpha @ v_part\n            D[:, i + 1] = di = F * di", "            dmpfrc1 = v_part @ alpha\n            D[:, i + 1] = di = F * di",
     "alpha applied from the right"),
    ("C17", "break", ["C17-R5"], UNC, "            V[:, i + 1] = vi = v_part - Bp * dmpfrc1\n            dmpfrc0 = dmpfrc1\n\n        if not self.slices:\n            d[kdof] = D\n            v[kdof] = V\n\n    def _solve_real_unc_generator(",
     "            V[:, i + 1] = vi = v_part - Bp * dmpfrc1\n\n        if not self.slices:\n            d[kdof] = D\n            v[kdof] = V\n\n    def _solve_real_unc_generator(",
     "damping force not carried to the next step"),
    ("C17", "break", ["C17-R1"], NM, "        d, v, a, F = self._init_dva(force, d0, v0)", "        d, v, a, F = self._init_dva(force, v0, d0)",
     "initial conditions swapped on the way to the start-up step"),
    ("C17", "break", ["C17-R2"], NM, "        self.nonlin_terms = 0\n        if self.ksize == 0:", "        self.nonlin_terms = 1\n        if self.ksize == 0:",
     "a new solver claims a nonlinear term"),
    ("C17", "break", ["C17-R2"], NM, "        d0 = np.zeros(self.ksize) if d0 is None else d0[self.nonrf]", "        d0 = np.zeros(self.ksize) if v0 is None else d0[self.nonrf]",
     "default initial displacement keyed on v0"),
    # ---- partitions given as index vectors / rf modes
    ("C17", "break", ["C17-R1"], NM, "                d[self.kdof] = D\n", "                pass\n", "displacements not copied back for index-vector partitions"),
    ("C17", "break", ["C17-R5"], UNC, "        if not self.slices:\n            d[kdof] = D\n            v[kdof] = V\n\n    def _solve_real_unc_generator(",
     "        if not self.slices:\n            d[kdof] = D\n\n    def _solve_real_unc_generator(", "velocities of the damping-as-force solver not copied back"),
    ("C17", "break", ["C17-R2"], NM, "                d[self.rf] = self.ikrf * force[self.rf]", "                d[self.rf] = force[self.rf] / self.ikrf",
     "rf equations divided by the flexibility"),
    # ---- behaviour-preserving refactorings
    ("C17", "neutral", [], NM, "            d[self.nonrf, -1] = u_1\n", "            if v0.any():\n                d[self.nonrf, -1] = u_1\n            else:\n                d[self.nonrf, -1] = d0 - v0 * h\n",
     "the same store on both arms of a data-dependent test"),
    ("C17", "neutral", [], NM, "                    De = 3 * F[:, -1] + A1 * D[:, -1] + A0 * D[:, -2]",
     "                    f_last = F[:, nt - 1]\n                    De = 3 * f_last + A1 * D[:, nt - 1] + A0 * D[:, nt - 2]", "explicit last indices and a temporary"),
    ("C17", "neutral", [], NM, "        u_1 = d0 - v0 * h\n", "        u_prev = d0 - v0 * h\n        u_1 = u_prev\n", "alias of u_-1"),
    ("C17", "neutral", [], NM, "            d[self.nonrf, -1] = u_1\n", "            d[self.nonrf, nt - 1] = u_1\n", "explicit index of the last column"),
    ("C17", "neutral", [], NM, "                T = la.lu_solve(self.Ad, v[1])", "                T = la.lu_solve(self.Ad, v[1], trans=0)", "explicit trans=0"),
    ("C17", "neutral", [], NM, "            V[:, -1] = (De - D[:, -2]) / h2\n", "            Vt = V.T\n            Vt[-1] = (De - D[:, -2]) / h2\n", "store through a transposed view"),
    ("C17", "neutral", [], UNC, "                    self.pc.alpha = la.solve(tmp.T, self.bo.T).T", "                    self.pc.alpha = np.transpose(la.solve(np.transpose(tmp), np.transpose(self.bo)))",
     "np.transpose for .T"),
    ("C17", "neutral", [], UNC, "                    tmp = np.eye(self.ksize) + Bp * self.bo", "                    tmp = np.eye(self.ksize) + np.diag(self.pc.Bp) @ self.bo",
     "diag(Bp) @ C_od for the row scaling"),
    ("C17", "neutral", [], UNC, "                if self.cdforces:\n                    self._solve_real_unc_cdforces(d, v, force)", "                cdf = self.cdforces\n                if cdf:\n                    self._solve_real_unc_cdforces(d, v, force)",
     "local alias of self.cdforces"),
    ("C17", "neutral", [], CDF, "        return super().generator(nt, F0, d0, v0, static_ic)", "        gen = super().generator(nt, F0, static_ic=static_ic, v0=v0, d0=d0)\n        return gen",
     "keyword arguments and a temporary"),
    ("C17", "neutral", [], BASE, "        if b.ndim == 1 or (b.ndim == 2 and ytools.isdiag(b)):\n            unc += 1\n        elif cd_as_force:",
     "        b_is_diag = b.ndim == 1 or (b.ndim == 2 and ytools.isdiag(b))\n        if b_is_diag:\n            unc += 1\n        elif cd_as_force:", "named test"),
]
