"""C01 break / neutral recipes added when the rules were moved from text patterns / name-keyed cells to values (same tuple format as selftest.RECIPES)."""

U = "pyyeti/ode/_utilities.py"
B = "pyyeti/ode/_base_ode_class.py"
S = "pyyeti/ode/solveunc.py"
E1 = "pyyeti/ode/solveexp1.py"
E2 = "pyyeti/ode/solveexp2.py"

RECIPES = [
    # ---- break: obligations that are new or that were re-expressed on values
    ("C01", "break", ["C01-R1"], U, "        pvcrit[pvel] = abs(rat) < 1.0e-8", "        pvcrit[pvel] = abs(rat) < 1.0e-7",
     "critical band wider than the gap between the under- and over-damped thresholds (modes selected twice)"),
    ("C01", "break", ["C01-R1"], U, "            F[pvundr] = ex * (cs + (beta / w) * sn)", "            F[pvover] = ex * (cs + (beta / w) * sn)",
     "under-damped F stored through the over-damped mask"),
    ("C01", "break", ["C01-R1"], U, "        if np.any(pvcrit):\n            beta = C[pvcrit]", "        if np.any(pvcrit):\n            beta = 2 * C[pvcrit]",
     "critical regime: beta taken as b/m instead of b/2m"),
    ("C01", "break", ["C01-R1b"], U, "        pvrb = (wo2 < 0.005).astype(int)", "        pvrb = (k < 0.005).astype(int)",
     "auto-detected rigid-body modes decided on the raw stiffness"),
    ("C01", "break", ["C01-R3"], B, "        A[v2, v1] = 1.0", "        A[v1, v2] = 1.0", "_build_A: d' = v written into the velocity rows"),
    ("C01", "break", ["C01-R4"], B, "        if self.pre_eig:\n            raise NotImplementedError(\n                f\"{type(self).__name__} generator not yet implemented \"",
     "        if self.pre_eig and nt < 0:\n            raise NotImplementedError(\n                f\"{type(self).__name__} generator not yet implemented \"",
     "generator path no longer refuses pre_eig"),
    ("C01", "break", ["C01-R6"], B, "                    bo = bo[np.ix_(self.nonrf, self.nonrf)]", "                    bo = bo[np.ix_(self.rf, self.rf)]",
     "off-diagonal damping restricted to the rf equations"),
    ("C01", "break", ["C01-R6"], S, "                self._solve_complex_unc(d, v, a, force)\n        self._calc_acce_kdof(d, v, a, force)\n        return self._solution(d, v, a)",
     "                self._solve_complex_unc(d, v, a, force)\n        return self._solution(d, v, a)", "SolveUnc.tsolve: equilibrium acceleration never computed"),
    ("C01", "break", ["C01-R6"], E2, "            self._calc_acce_kdof(d, v, a, force)\n        return self._solution(d, v, a)",
     "            self._calc_acce_kdof(d, v, a, force[:, ::-1])\n        return self._solution(d, v, a)", "SolveExp2.tsolve: acceleration from another force history"),
    ("C01", "break", ["C01-R9"], E2, "                if not self.slices:\n                    d[kdof] = D\n                    v[kdof] = V",
     "                if not self.slices:\n                    v[kdof] = V", "SolveExp2: displacements of interleaved partitions never copied back"),
    ("C01", "break", ["C01-R10"], S, "            nt,\n        )\n\n        if not self.slices:\n            d[kdof] = D\n            v[kdof] = V",
     "            nt,\n        )\n\n        if not self.slices:\n            d[kdof] = D\n            v[kdof] = D", "SolveUnc uncoupled: displacement copied back into the velocity rows"),
    ("C01", "break", ["C01-R11"], S, "                if not self.slices:\n                    d[rb] = drb\n                    v[rb] = vrb",
     "                if self.slices:\n                    d[rb] = drb\n                    v[rb] = vrb", "complex path rb: copies written back only when they are views"),
    ("C01", "break", ["C01-R11"], S, "            a[rb] = rbforce", "            a[rb] = force[rb]", "complex path rb: acceleration without the inverse mass"),
    # ---- neutral: spellings the value-level rules must not notice
    ("C01", "neutral", [], U, "        if np.any(pvcrit):\n            beta = C[pvcrit]", "        some_critical = pvcrit.any()\n        if some_critical:\n            beta = C[pvcrit]",
     "get_su_coef: regime test through a named flag"),
    ("C01", "neutral", [], U, "        pvvelo = pvrb_damped.nonzero()[0]", "        pvvelo = np.flatnonzero(pvrb_damped)", "get_su_coef: np.flatnonzero for .nonzero()[0]"),
    ("C01", "neutral", [], U, "        rat = w2[pvel] / wo2[pvel]\n        pvundr[pvel] = rat >= 1.0e-8\n        pvcrit[pvel] = abs(rat) < 1.0e-8\n        pvover[pvel] = rat <= -1e-8",
     "        ratio = w2[pvel] / wo2[pvel]\n        tol = 1.0e-8\n        pvover[pvel] = -tol >= ratio\n        pvundr[pvel] = ratio >= tol\n        pvcrit[pvel] = np.abs(ratio) < tol",
     "get_su_coef: renamed ratio, named tolerance, mirrored comparison, statements reordered"),
    ("C01", "neutral", [], E1, "            for j in range(1, nt):\n                d0 = d[:, j] = E @ d0 + PQF[:, j - 1]\n            t = self.h * np.arange(nt)\n        else:\n            t = np.array([0.0])\n        return SimpleNamespace(d=d, v=force + self.A @ d, h=self.h, t=t)",
     "            step = 0\n            while step < nt - 1:\n                state = E @ d0 + PQF[:, step]\n                step += 1\n                d[:, step] = state\n                d0 = state\n            t = self.h * np.arange(nt)\n        else:\n            t = np.array([0.0])\n        rate = self.A @ d + force\n        return SimpleNamespace(d=d, v=rate, h=self.h, t=t)",
     "SolveExp1: while loop, shifted index, renamed temporaries"),
    ("C01", "neutral", [], E2, "                    d0 = D[:, i]\n                    v0 = V[:, i]\n                    D[:, i + 1] = E_dd @ d0 + E_dv @ v0 + PQF[ksize:, i]\n                    V[:, i + 1] = E_vd @ d0 + E_vv @ v0 + PQF[:ksize, i]",
     "                    fv, fd = PQF[:ksize, i], PQF[ksize:, i]\n                    D[:, i + 1], V[:, i + 1] = (\n                        E_dd @ D[:, i] + E_dv @ V[:, i] + fd,\n                        E_vd @ D[:, i] + E_vv @ V[:, i] + fv,\n                    )",
     "SolveExp2: simultaneous tuple store, loads straight from the arrays"),
    ("C01", "neutral", [], S, "                if not self.slices:\n                    d[rb] = drb\n                    v[rb] = vrb",
     "                if not self.slices:\n                    for full, part in ((d, drb), (v, vrb)):\n                        full[rb] = part", "complex path rb: write-back in a loop over (array, copy) pairs"),
    ("C01", "neutral", [], B, "        A[v2, v1] = 1.0", "        vel, dis = v1, v2\n        A[dis, vel] = 1.0", "_build_A: aliases for the two index ranges"),
    ("C01", "neutral", [], U, "    pvrb_damped = (abs(C) > 1e-5 / np.sqrt(h)) & pvrb\n",
     "    cut = 2e-5 / np.sqrt(h)\n    pvrb_damped = (abs(b) > (cut if m is None else cut * m)) & pvrb\n",
     "get_su_coef: damped rigid-body cut-off compared with b against a cut-off scaled by the mass (same decision)"),
    ("C01", "neutral", [], S, "                self._solve_complex_unc(d, v, a, force)\n        self._calc_acce_kdof(d, v, a, force)\n        return self._solution(d, v, a)",
     "                self._solve_complex_unc(d, v, a, force)\n        hist = (d, v, a)\n        self._calc_acce_kdof(*hist, force)\n        return self._solution(*hist)",
     "SolveUnc.tsolve: arrays passed with *args"),
]
