"""Symbolic text and binary-record values for the C04 rules (helper of verifier/c04_sem.py).

A `Txt` is a sequence of literal pieces and *fields* (a value printed under a format specification whose width / precision may themselves be
symbolic values).  f-strings, `%` formatting and `str.format` all produce the same Txt, so the way a line is spelled does not matter; the
string methods a reader applies to a line (slicing by columns, strip, upper, startswith, replace, find, split, int()) are evaluated on the
Txt itself, so `reader(writer(values))` can be compared with `values`.

`PackV` / `Item` model what `struct.pack` emits: a list of typed items (code, count, value); `Stream` is what a reader consumes with
`read(n)` / `unpack` / `np.fromfile`.  A reader that cuts a field or an item in two gets a `Bad` value: a provable disagreement (-> fail),
as opposed to `Unknown` (the evaluator cannot lower a construct -> analysis error)."""
from __future__ import annotations

from fractions import Fraction

from . import e2_formula as F
from .e2_eval import Unknown, is_unknown


class Bad(Unknown):
    """a value the reader obtains by cutting across what the writer emitted: a provable writer/reader disagreement"""
    bad = True

    def __repr__(self):
        return f"Bad({self.why})"


def is_bad(v):
    return isinstance(v, Bad)


def is_rat(v):
    return isinstance(v, F.Rat)


def single_atom(v):
    """Rat that is exactly one atom -> its description, else None"""
    if not is_rat(v):
        return None
    try:
        if not v.d.is_const() or v.d.const_value() != 1 or len(v.n.t) != 1:
            return None
        (m, c), = v.n.t.items()
        if c != 1 or len(m) != 1 or m[0][1] != 1:
            return None
        return F.atom_desc(m[0][0])
    except Exception:  # noqa
        return None


def atom_id(v):
    if single_atom(v) is None:
        return None
    (m, _c), = v.n.t.items()
    return m[0][0]


def sym_name(v):
    d = single_atom(v)
    if d is not None and d[0] == "s":
        return d[1]
    return None


def strconst(v):
    """the Python string of a string-constant symbol (AutoEvaluator spells 'abc' as the symbol \"'abc'\"), else None"""
    n = sym_name(v)
    if n and len(n) >= 2 and n[0] in "'\"" and n[-1] == n[0]:
        try:
            import ast
            s = ast.literal_eval(n)
            if isinstance(s, str):
                return s
        except Exception:  # noqa
            return None
    return None


def const_int(v):
    if is_rat(v) and v.is_const():
        c = v.const_value()
        if c.denominator == 1:
            return int(c)
    return None


def req(a, b):
    """equality of two optional Rat values"""
    if a is None or b is None:
        return a is None and b is None
    if is_rat(a) and is_rat(b):
        return a.equals(b)
    if isinstance(a, Txt) and isinstance(b, Txt):
        return a.same(b)
    return False


# ------------------------------------------------------------------------------------------------------------------ text
class Lit:
    __slots__ = ("s",)

    def __init__(self, s):
        self.s = s

    def __repr__(self):
        return repr(self.s)


STRISH = ("call:.upper", "call:.lower", "call:.strip", "call:.rstrip", "call:.lstrip", "call:str", "call:.decode", "call:.encode", "call:repr",
          "call:.ljust", "call:.rjust", "call:.format", "call:.join", "call:.translate", "call:.replace")


def strish(v):
    if isinstance(v, Txt):
        return True
    if strconst(v) is not None:
        return True
    d = single_atom(v)
    return bool(d is not None and d[0] == "fn" and d[1] in STRISH)


class Fld:
    """one formatted value.  conv: '' (default), d, s, r, e/E, f/F, g/G, x ...; width / prec: Rat or None; align: '<' '>' '^' '=' or None"""
    __slots__ = ("v", "conv", "width", "prec", "align", "flags")

    def __init__(self, v, conv="", width=None, prec=None, align=None, flags=""):
        self.v, self.conv, self.width, self.prec, self.align, self.flags = v, conv, width, prec, align, flags

    def kind(self):
        if self.conv in ("d", "i", "n"):
            return "int"
        if self.conv in ("e", "E", "f", "F", "g", "G", "%"):
            return "float"
        if self.conv in ("s", "r", "a"):
            return "str"
        if self.conv == "":
            if strish(self.v):
                return "str"
            if self.width is not None or self.prec is not None:
                return "int" if self.prec is None else "float"
            if is_rat(self.v) and self.v.is_const():
                return "int" if self.v.const_value().denominator == 1 else "float"
            return "any"
        return "other"

    def eff_align(self):
        if self.align:
            return self.align
        if "-" in self.flags:
            return "<"
        return "<" if self.kind() == "str" else ">"

    def nchars(self):
        """number of characters (int) when it is fixed: a constant width (the value is assumed to fit: checked separately)"""
        w = const_int(self.width) if self.width is not None else None
        if w is not None:
            return w
        s = self.render()
        if s is not None:
            return len(s)
        return None

    def min_chars(self):
        n = self.nchars()
        if n is not None:
            return n
        if self.kind() in ("int", "float") or (self.kind() == "any" and not strish(self.v)):
            return 1
        return 0

    def render(self):
        """concrete text when value and specification are constants"""
        if self.width is not None and const_int(self.width) is None:
            return None
        if self.prec is not None and const_int(self.prec) is None:
            return None
        v = self.v
        if isinstance(v, Txt):
            val = v.concrete()
            if val is None:
                return None
        elif strconst(v) is not None:
            val = strconst(v)
        elif is_rat(v) and v.is_const():
            c = v.const_value()
            val = int(c) if c.denominator == 1 and self.kind() != "float" else float(c)
        else:
            return None
        spec = ""
        al = self.align or ("<" if "-" in self.flags else "")
        spec += al
        if "+" in self.flags:
            spec += "+"
        if "0" in self.flags:
            spec += "0"
        if self.width is not None:
            spec += str(const_int(self.width))
        if self.prec is not None:
            spec += "." + str(const_int(self.prec))
        conv = self.conv
        if conv in ("i",):
            conv = "d"
        if conv in ("r", "a"):
            val, conv = repr(val), "s"
        if isinstance(val, str) and conv not in ("", "s"):
            return None
        if isinstance(val, float) and conv in ("d",):
            val = int(val)
        try:
            return format(val, spec + conv)
        except Exception:  # noqa
            return None

    def same(self, o):
        if not isinstance(o, Fld):
            return False
        ka, kb = self.kind(), o.kind()
        if ka != kb and "any" not in (ka, kb):
            return False
        if ka == "float" and self.conv.lower() != o.conv.lower() and "" not in (self.conv, o.conv):
            return False
        if ka == "float" and self.conv != o.conv:
            return False
        if not req(self.v, o.v):
            return False
        if not req(self.width, o.width) or not req(self.prec, o.prec):
            return False
        if self.width is not None and self.eff_align() != o.eff_align():
            return False
        return True

    def __repr__(self):
        s = "{" + repr(self.v)
        sp = ""
        if self.align:
            sp += self.align
        sp += self.flags
        if self.width is not None:
            sp += repr(self.width)
        if self.prec is not None:
            sp += "." + repr(self.prec)
        sp += self.conv
        return s + (":" + sp if sp else "") + "}"


class PosV:
    """a position inside a Txt found by `.find`: piece index + offset inside that (literal) piece; `sig` = piece-length signature of the Txt"""
    __slots__ = ("pi", "off", "sig", "minabs")

    def __init__(self, pi, off, sig, minabs):
        self.pi, self.off, self.sig, self.minabs = pi, off, sig, minabs

    def shifted(self, k):
        return PosV(self.pi, self.off + k, self.sig, self.minabs + k)

    def __repr__(self):
        return f"Pos(piece {self.pi}+{self.off})"


class Txt:
    __slots__ = ("p",)

    def __init__(self, pieces=()):
        out = []
        for x in pieces:
            if isinstance(x, str):
                x = Lit(x)
            if isinstance(x, Txt):
                for y in x.p:
                    Txt._push(out, y)
            else:
                Txt._push(out, x)
        self.p = tuple(out)

    @staticmethod
    def _push(out, x):
        if isinstance(x, Lit):
            if not x.s:
                return
            if out and isinstance(out[-1], Lit):
                out[-1] = Lit(out[-1].s + x.s)
                return
        out.append(x)

    # ---- queries
    def __repr__(self):
        return "T[" + " ".join(repr(x) for x in self.p) + "]"

    def concrete(self):
        out = []
        for x in self.p:
            if isinstance(x, Lit):
                out.append(x.s)
            else:
                s = x.render()
                if s is None:
                    return None
                out.append(s)
        return "".join(out)

    def same(self, o):
        if not isinstance(o, Txt):
            return False
        a, b = self.concrete(), o.concrete()
        if a is not None and b is not None:
            return a == b
        if len(self.p) != len(o.p):
            return False
        for x, y in zip(self.p, o.p):
            if isinstance(x, Lit) != isinstance(y, Lit):
                return False
            if isinstance(x, Lit):
                if x.s != y.s:
                    return False
            elif not x.same(y):
                return False
        return True

    def sig(self):
        return tuple(len(x.s) if isinstance(x, Lit) else x.nchars() for x in self.p)

    def fixed_len(self):
        n = 0
        for k in self.sig():
            if k is None:
                return None
            n += k
        return n

    def min_len(self):
        return sum(len(x.s) if isinstance(x, Lit) else x.min_chars() for x in self.p)

    def fields(self):
        return [x for x in self.p if isinstance(x, Fld)]

    def tokens(self):
        out = []
        for x in self.p:
            if isinstance(x, Lit):
                out.extend(("c", ch) for ch in x.s)
            else:
                out.append(("f", x))
        return out

    def nonempty(self):
        """True / False / None"""
        if self.min_len() > 0:
            return True
        if not self.p:
            return False
        return None

    # ---- construction
    def __add__(self, o):
        return Txt(self.p + o.p)

    # ---- slicing
    def _cut(self, pos):
        """index of the piece boundary at absolute offset `pos` (int >= 0), splitting a literal when needed -> (pieces list, index) or Bad/None"""
        pieces = list(self.p)
        at = 0
        for i, x in enumerate(pieces):
            if at == pos:
                return pieces, i
            n = len(x.s) if isinstance(x, Lit) else x.nchars()
            if n is None:
                return None, f"offset {pos} lies behind a field of unknown width ({x!r})"
            if pos < at + n:
                if isinstance(x, Lit):
                    k = pos - at
                    pieces[i:i + 1] = [Lit(x.s[:k]), Lit(x.s[k:])]
                    return pieces, i + 1
                return "bad", f"column {pos} cuts the field {x!r} which occupies columns {at}:{at + n}"
            at += n
        if pos >= at:
            return pieces, len(pieces)
        return None, "?"

    def slice(self, lo, hi):
        """lo / hi: int, None or PosV"""
        if isinstance(lo, PosV) or isinstance(hi, PosV):
            return self._slice_pos(lo, hi)
        lo = 0 if lo is None else lo
        total = self.fixed_len()
        if lo < 0 or (hi is not None and hi < 0):
            if total is None:
                # negative bounds: count from the end over the fixed-width tail
                return self._slice_from_end(lo, hi)
            if lo < 0:
                lo = max(0, total + lo)
            if hi is not None and hi < 0:
                hi = max(0, total + hi)
        head = self
        if hi is not None:
            if hi <= lo:
                return Txt()
            p2, j = self._cut(hi)
            if p2 == "bad":
                return Bad(j)
            if p2 is None:
                return Unknown(j)
            head = Txt(p2[:j])
        pieces, i = head._cut(lo)
        if pieces == "bad":
            return Bad(i)
        if pieces is None:
            return Unknown(i)
        return Txt(pieces[i:])

    def _slice_from_end(self, lo, hi):
        if lo not in (0, None) and lo >= 0 and hi is not None and hi < 0:
            head = self.slice(lo, None)
            if not isinstance(head, Txt):
                return head
            return head._slice_from_end(0, hi)
        if lo in (0, None) and hi is not None and hi < 0:
            k = -hi
            pieces = list(self.p)
            while k > 0 and pieces:
                x = pieces[-1]
                n = len(x.s) if isinstance(x, Lit) else x.nchars()
                if n is None:
                    return Unknown(f"[:-{-hi}] reaches into a field of unknown width")
                if n <= k:
                    pieces.pop()
                    k -= n
                elif isinstance(x, Lit):
                    pieces[-1] = Lit(x.s[:-k])
                    k = 0
                else:
                    return Bad(f"[:{hi}] cuts the field {x!r}")
            return Txt(pieces)
        return Unknown("slice with negative bounds")

    def _slice_pos(self, lo, hi):
        sig = self.sig()

        def split(pos):
            if pos.sig != sig:
                return None
            x = self.p[pos.pi] if pos.pi < len(self.p) else None
            if pos.pi == len(self.p) and pos.off == 0:
                return list(self.p), len(self.p)
            if not isinstance(x, Lit) or pos.off < 0 or pos.off > len(x.s):
                return None
            pieces = list(self.p)
            pieces[pos.pi:pos.pi + 1] = [Lit(x.s[:pos.off]), Lit(x.s[pos.off:])]
            return pieces, pos.pi + 1
        if isinstance(lo, PosV) and hi is None:
            r = split(lo)
            return Unknown("position does not belong to this text") if r is None else Txt(r[0][r[1]:])
        if isinstance(hi, PosV) and lo in (None, 0):
            r = split(hi)
            return Unknown("position does not belong to this text") if r is None else Txt(r[0][:r[1]])
        return Unknown("slice between two positions")

    # ---- string methods
    def strip_ws(self, left=True, right=True, chars=None):
        pieces = list(self.p)
        ws = chars if chars is not None else " \t\n\r\x0b\x0c"
        if right:
            while pieces and isinstance(pieces[-1], Lit):
                s = pieces[-1].s.rstrip(ws)
                if s:
                    pieces[-1] = Lit(s)
                    break
                pieces.pop()
        if left:
            while pieces and isinstance(pieces[0], Lit):
                s = pieces[0].s.lstrip(ws)
                if s:
                    pieces[0] = Lit(s)
                    break
                pieces.pop(0)
        return Txt(pieces)

    def map_lit(self, f, fname):
        out = []
        for x in self.p:
            if isinstance(x, Lit):
                out.append(Lit(f(x.s)))
            elif x.kind() in ("int", "float", "any") and fname in ("upper", "lower", "replace_alpha"):
                # digits, sign, blanks: unchanged; an exponent letter changes case with upper/lower
                if x.kind() == "float" and fname in ("upper", "lower") and x.conv in ("e", "E", "g", "G"):
                    out.append(Fld(x.v, x.conv.upper() if fname == "upper" else x.conv.lower(), x.width, x.prec, x.align, x.flags))
                else:
                    out.append(x)
            elif is_rat(x.v):
                out.append(Fld(F.fn("call:." + fname, x.v), x.conv, x.width, x.prec, x.align, x.flags))
            else:
                return None
        return Txt(out)

    def find(self, sub):
        """position of the first occurrence of the literal `sub`: PosV, -1 (absent) or None (cannot tell)"""
        minabs = 0
        for i, x in enumerate(self.p):
            if isinstance(x, Lit):
                k = x.s.find(sub)
                if k >= 0:
                    return PosV(i, k, self.sig(), minabs + k)
                minabs += len(x.s)
                continue
            k = x.kind()
            if k in ("int", "any"):
                alphabet = "0123456789-+ "
            elif k == "float":
                alphabet = "0123456789-+ ." + ("eE" if x.conv in ("e", "E", "g", "G", "") else "") + "infa"
            else:
                return None
            if sub and all(ch in alphabet for ch in sub):
                return None
            minabs += x.min_chars()
        return -1

    def split(self, sep):
        parts, cur = [], []
        for x in self.p:
            if isinstance(x, Lit):
                segs = x.s.split(sep)
                cur.append(Lit(segs[0]))
                for s in segs[1:]:
                    parts.append(Txt(cur))
                    cur = [Lit(s)]
            else:
                if x.kind() == "float" and sep in ".eE+-":
                    return None
                if x.kind() not in ("int", "float", "any"):
                    return None
                cur.append(x)
        parts.append(Txt(cur))
        return tuple(parts)

    def split_ws(self, rng=None):
        """split() on white space: every numeric field is one word (its padding is white space), literal text is split as usual; None when a
        field could itself hold white space or touches a neighbour without a blank.  With a range oracle `rng(value) -> (lo, hi)` a right-aligned
        integer field that follows another field without a blank is still a word of its own when its value is provably narrower than the
        field (it starts with a blank); when its value can fill the field the two fields fuse: Bad (a provable writer / reader disagreement:
        the witness is the value that fills the field)"""
        words, glued, prev = [], False, None
        for x in self.p:
            was, prev = prev, x
            if glued and rng is not None and isinstance(x, Fld) and x.kind() == "int" and x.width is not None and const_int(x.width) is not None \
                    and x.eff_align() == ">" and not (x.flags or "") and is_rat(x.v) and isinstance(was, Fld):
                w = const_int(x.width)
                lo, hi = rng(x.v)
                if w >= 2 and lo is not None and hi is not None and not is_rat(lo) and not is_rat(hi):
                    if lo >= 0 and hi < 10 ** (w - 1):
                        words.append(Txt([Fld(x.v, x.conv, None, x.prec, None, x.flags)]))
                        glued = True
                        continue
                    if lo >= 0 and hi >= 10 ** (w - 1):
                        return Bad(f"split() on white space of two adjacent {w}-character integer fields: the second field (values up to {int(hi)}) fills its "
                                   f"{w} characters from {10 ** (w - 1)} on, the two numbers fuse into one word (witness: a field value of {10 ** (w - 1)}); "
                                   "fixed-column fields must be cut by column")
                return None
            if isinstance(x, Lit):
                if not x.s:
                    continue
                parts = x.s.split()
                if parts and not x.s[0].isspace() and glued:
                    return None
                words.extend(Txt([Lit(w)]) for w in parts)
                glued = bool(parts) and not x.s[-1].isspace()
            else:
                if x.kind() not in ("int", "float") and not (x.kind() == "any" and not strish(x.v)):
                    return None
                w = const_int(x.width) if x.width is not None else None
                # a right-aligned number in a wider field starts with a blank only if it does not fill the field: words may fuse when it does
                if glued:
                    return None
                words.append(Txt([Fld(x.v, x.conv, None, x.prec, None, x.flags)]))
                glued = x.eff_align() != "<" or w is None
        return tuple(words)

    def startswith(self, s):
        if not self.p:
            return False if s else True
        x = self.p[0]
        if isinstance(x, Lit):
            if len(x.s) >= len(s):
                return x.s.startswith(s)
            if not s.startswith(x.s):
                return False
        return None

    def endswith(self, s):
        """True / False / None"""
        def rec(pieces, rem):
            if not rem:
                return True
            if not pieces:
                return False
            x = pieces[-1]
            if isinstance(x, Lit):
                if len(x.s) >= len(rem):
                    return x.s.endswith(rem)
                if not rem.endswith(x.s):
                    return False
                return rec(pieces[:-1], rem[:-len(x.s)])
            k = x.kind()
            if k == "int" or (k == "any" and not strish(x.v)):
                alphabet = "0123456789-+ "
            elif k == "float":
                alphabet = "0123456789-+ .eEinfa"
            else:
                return None
            run = 0
            while run < len(rem) and rem[-1 - run] in alphabet:
                run += 1
            if run == 0:
                return False
            # the field covers 1..run of the trailing characters (its digits are not known): only a definite "no" can be concluded
            res = [rec(pieces[:-1], rem[:len(rem) - j]) for j in range(1, run + 1) if j < len(rem)]
            if run >= len(rem):
                return None
            return False if all(r is False for r in res) else None
        return rec(list(self.p), s)

    def as_int(self):
        """int(text): the value of the single integer field the text consists of"""
        t = self.strip_ws()
        c = t.concrete()
        if c is not None:
            try:
                return F.const(int(c))
            except ValueError:
                return Bad(f"int({c!r})")
        if len(t.p) == 1 and isinstance(t.p[0], Fld):
            x = t.p[0]
            if x.kind() in ("int", "any") and is_rat(x.v):
                if not x.v.d.is_const():
                    # a true quotient a / b prints as a float ("3.4782608695652173"): int() of that text raises
                    return Bad(f"int() of the text of {x.v!r}, a quotient that is not an integer in general")
                return x.v
            return Bad(f"int() of the non-integer field {x!r}")
        if any(isinstance(x, Fld) and x.kind() not in ("int", "any") for x in t.p) or any(isinstance(x, Lit) and x.s.strip("0123456789 ") for x in t.p):
            return Bad(f"int() of {t!r}")
        return Bad(f"int() of several fused fields {t!r}")

    def atom(self):
        """an opaque Rat standing for this text (so that it can be an argument of an opaque application)"""
        args = []
        for x in self.p:
            if isinstance(x, Lit):
                args.append(F.sym(repr(x.s)))
            else:
                v = x.v.atom() if isinstance(x.v, Txt) else (x.v if is_rat(x.v) else F.sym("?"))
                args.append(F.fn("fld:" + x.conv + ":" + x.eff_align(), v, x.width if is_rat(x.width) else F.sym("None"), x.prec if is_rat(x.prec) else F.sym("None")))
        return F.fn("txt", *args)


def as_txt(v, loose=False):
    """Txt for a Txt / string constant; with loose=True any Rat becomes a default-formatted field"""
    if isinstance(v, Txt):
        return v
    s = strconst(v)
    if s is not None:
        return Txt([Lit(s)])
    if loose and is_rat(v):
        return Txt([Fld(v)])
    return None


# ------------------------------------------------------------------------------------------------------------------ format parsing
def _digits(tokens, i):
    """a run of digit characters or one field -> (value Rat or None, next index)"""
    if i < len(tokens) and tokens[i][0] == "f":
        f = tokens[i][1]
        if is_rat(f.v) and f.width is None and f.prec is None:
            return f.v, i + 1
        return None, i
    j = i
    while j < len(tokens) and tokens[j][0] == "c" and tokens[j][1].isdigit():
        j += 1
    if j == i:
        return None, i
    return F.const(int("".join(t[1] for t in tokens[i:j]))), j


def percent_format(tmpl, args):
    """tmpl % args  ->  Txt  (Unknown when it cannot be parsed).  args: list of values"""
    tk = tmpl.tokens()
    out, lit = [], []
    i, k = 0, 0
    while i < len(tk):
        t = tk[i]
        if t[0] == "f":
            if lit:
                out.append(Lit("".join(lit)))
                lit = []
            out.append(t[1])
            i += 1
            continue
        if t[1] != "%":
            lit.append(t[1])
            i += 1
            continue
        i += 1
        if i < len(tk) and tk[i] == ("c", "%"):
            lit.append("%")
            i += 1
            continue
        flags = ""
        while i < len(tk) and tk[i][0] == "c" and tk[i][1] in "-+ #0":
            flags += tk[i][1]
            i += 1
        width = prec = None
        if i < len(tk) and tk[i] == ("c", "*"):
            if k >= len(args):
                return Unknown("% format: not enough arguments")
            width = args[k]
            k += 1
            i += 1
        else:
            width, i = _digits(tk, i)
        if i < len(tk) and tk[i] == ("c", "."):
            i += 1
            if i < len(tk) and tk[i] == ("c", "*"):
                if k >= len(args):
                    return Unknown("% format: not enough arguments")
                prec = args[k]
                k += 1
                i += 1
            else:
                prec, i = _digits(tk, i)
                if prec is None:
                    prec = F.const(0)
        while i < len(tk) and tk[i][0] == "c" and tk[i][1] in "hlL":
            i += 1
        if i >= len(tk) or tk[i][0] != "c":
            return Unknown("% format: no conversion character")
        conv = tk[i][1]
        i += 1
        if k >= len(args):
            return Unknown("% format: not enough arguments")
        v = args[k]
        k += 1
        if lit:
            out.append(Lit("".join(lit)))
            lit = []
        if conv in ("i", "u"):
            conv = "d"
        out.append(Fld(v, conv, width, prec, None, flags))
    if lit:
        out.append(Lit("".join(lit)))
    if k != len(args):
        return Unknown("% format: argument count")
    return Txt(out)


def parse_spec(spec):
    """format-spec mini language over a Txt (characters and fields) -> dict(align, flags, width, prec, conv) or None"""
    tk = spec.tokens() if isinstance(spec, Txt) else [("c", ch) for ch in spec]
    i = 0
    align = None
    flags = ""
    if len(tk) >= 2 and tk[1][0] == "c" and tk[1][1] in "<>^=" and tk[0][0] == "c":
        if tk[0][1] != " ":
            return None
        align = tk[1][1]
        i = 2
    elif tk and tk[0][0] == "c" and tk[0][1] in "<>^=":
        align = tk[0][1]
        i = 1
    while i < len(tk) and tk[i][0] == "c" and tk[i][1] in "+- #":
        if tk[i][1] == "+":
            flags += "+"
        i += 1
    if i < len(tk) and tk[i] == ("c", "0"):
        flags += "0"
        i += 1
    width, i = _digits(tk, i)
    if i < len(tk) and tk[i][0] == "c" and tk[i][1] in ",_":
        return None
    prec = None
    if i < len(tk) and tk[i] == ("c", "."):
        i += 1
        prec, i = _digits(tk, i)
        if prec is None:
            return None
    conv = ""
    if i < len(tk):
        if tk[i][0] != "c":
            return None
        conv = tk[i][1]
        i += 1
    if i != len(tk):
        return None
    return dict(align=align, flags=flags, width=width, prec=prec, conv=conv)


def make_field(v, spec, conversion=None):
    sp = parse_spec(spec) if spec is not None else dict(align=None, flags="", width=None, prec=None, conv="")
    if sp is None:
        return Unknown(f"format specification {spec!r}")
    conv = sp["conv"]
    if conversion in ("r", "a") and conv in ("", "s"):
        conv = "r"
    elif conversion == "s" and conv == "":
        conv = "s"
    if isinstance(v, Txt) and sp["width"] is None and sp["prec"] is None and conv in ("", "s"):
        return v
    s = strconst(v) if is_rat(v) else None
    if s is not None and sp["width"] is None and sp["prec"] is None and conv in ("", "s"):
        return Txt([Lit(s)])
    if not is_rat(v) and not isinstance(v, Txt):
        return Unknown(f"formatted value {v!r}")
    return Txt([Fld(v, conv, sp["width"], sp["prec"], sp["align"], sp["flags"])])


def brace_format(tmpl, pos, kw):
    """tmpl.format(*pos, **kw) -> Txt"""
    out = []
    auto = 0
    for x in tmpl.p:
        if not isinstance(x, Lit):
            out.append(x)
            continue
        s = x.s
        i = 0
        lit = []
        while i < len(s):
            ch = s[i]
            if ch == "{":
                if s[i + 1:i + 2] == "{":
                    lit.append("{")
                    i += 2
                    continue
                j = s.find("}", i)
                if j < 0:
                    return Unknown("format: unbalanced brace")
                body = s[i + 1:j]
                conv = None
                spec = None
                if "{" in body:
                    # a nested replacement field inside the format specification:  {:{w}}  {0:{width}.{prec}E}
                    depth, j = 0, i
                    while j < len(s):
                        if s[j] == "{":
                            depth += 1
                        elif s[j] == "}":
                            depth -= 1
                            if depth == 0:
                                break
                        j += 1
                    if depth != 0:
                        return Unknown("format: unbalanced brace")
                    body = s[i + 1:j]
                    if ":" not in body or "{" in body.split(":", 1)[0]:
                        return Unknown("format: nested replacement field outside the specification")
                    body, rawspec = body.split(":", 1)
                    sp = []
                    k = 0
                    while k < len(rawspec):
                        if rawspec[k] == "{":
                            e = rawspec.find("}", k)
                            if e < 0:
                                return Unknown("format: unbalanced brace")
                            nm = rawspec[k + 1:e]
                            if nm == "":
                                # automatic numbering continues after the outer field
                                nm = "__auto__"
                            sp.append(("nested", nm))
                            k = e + 1
                        else:
                            sp.append(("c", rawspec[k]))
                            k += 1
                    spec = sp
                elif ":" in body:
                    body, spec = body.split(":", 1)
                if "!" in body:
                    body, conv = body.split("!", 1)
                if body == "":
                    key = auto
                    auto += 1
                elif body.isdigit():
                    key = int(body)
                else:
                    key = body
                if isinstance(key, int):
                    if key >= len(pos):
                        return Unknown("format: missing positional argument")
                    v = pos[key]
                else:
                    if key not in kw:
                        return Unknown(f"format: missing argument {key}")
                    v = kw[key]
                if isinstance(spec, list):
                    pieces = []
                    for kind_, x_ in spec:
                        if kind_ == "c":
                            pieces.append(Lit(x_))
                            continue
                        if x_ == "__auto__":
                            if auto >= len(pos):
                                return Unknown("format: missing positional argument")
                            nv = pos[auto]
                            auto += 1
                        elif x_.isdigit():
                            if int(x_) >= len(pos):
                                return Unknown("format: missing positional argument")
                            nv = pos[int(x_)]
                        else:
                            if x_ not in kw:
                                return Unknown(f"format: missing argument {x_}")
                            nv = kw[x_]
                        if not is_rat(nv):
                            return Unknown("format: nested field value")
                        pieces.append(Fld(nv))
                    spec = Txt(pieces)
                if lit:
                    out.append(Lit("".join(lit)))
                    lit = []
                f = make_field(v, spec, conv)
                if is_unknown(f):
                    return f
                out.append(f)
                i = j + 1
                continue
            if ch == "}":
                if s[i + 1:i + 2] == "}":
                    lit.append("}")
                    i += 2
                    continue
                return Unknown("format: single }")
            lit.append(ch)
            i += 1
        if lit:
            out.append(Lit("".join(lit)))
    return Txt(out)


# ------------------------------------------------------------------------------------------------------------------ binary records
CODE_SIZE = {"i": 4, "I": 4, "l": 4, "L": 4, "q": 8, "Q": 8, "d": 8, "f": 4, "h": 2, "H": 2, "b": 1, "B": 1, "c": 1, "s": 1, "x": 1}
INT_CODES = "iIlLqQhHbB"


class Item:
    """`count` values of struct code `code`.  count: Rat; value: Rat (one value), or the data array for a run (count symbolic / starred)"""
    __slots__ = ("code", "count", "value", "run", "node")

    def __init__(self, code, count, value, run=False, node=None):
        self.code, self.count, self.value, self.run, self.node = code, count, value, run, node

    def nbytes(self):
        return self.count * CODE_SIZE[self.code]

    def __repr__(self):
        if self.run:
            return f"<{self.count!r} x {self.code}: {self.value!r}>"
        if self.code == "s":
            return f"<{self.count!r}s: {self.value!r}>"
        return f"<{self.code}: {self.value!r}>"


class Star:
    """a starred argument *v"""

    def __init__(self, v):
        self.v = v


def parse_struct(fmt):
    """struct format Txt -> (byte order value or char or None, [(code, count Rat or None)]) or Unknown"""
    tk = fmt.tokens()
    i = 0
    order = None
    if tk and tk[0][0] == "f":
        f = tk[0][1]
        # a leading default-formatted field is the byte-order character when something follows that starts a code
        nxt = tk[1] if len(tk) > 1 else None
        if nxt is not None and (nxt[0] == "f" or nxt[1].isdigit() or nxt[1] in CODE_SIZE) and f.width is None and f.prec is None:
            order = f.v
            i = 1
    elif tk and tk[0][0] == "c" and tk[0][1] in "@=<>!":
        order = tk[0][1]
        i = 1
    codes = []
    while i < len(tk):
        if tk[i][0] == "c" and tk[i][1] == " ":
            i += 1
            continue
        cnt, j = _digits(tk, i)
        i = j
        if i >= len(tk) or tk[i][0] != "c" or tk[i][1] not in CODE_SIZE:
            return Unknown(f"struct format {fmt!r}")
        codes.append((tk[i][1], cnt))
        i += 1
    return order, codes


def pack_items(fmt, args, node=None):
    """items emitted by struct.pack(fmt, *args)"""
    r = parse_struct(fmt)
    if is_unknown(r):
        return r
    order, codes = r
    items = []
    k = 0
    for code, cnt in codes:
        if code == "x":
            items.append(Item("x", cnt if cnt is not None else F.const(1), None, node=node))
            continue
        if code == "s":
            if k >= len(args) or isinstance(args[k], Star):
                return Unknown("struct.pack: arguments of an `s` field")
            items.append(Item("s", cnt if cnt is not None else F.const(1), args[k], node=node))
            k += 1
            continue
        n = const_int(cnt) if cnt is not None else 1
        if k < len(args) and isinstance(args[k], Star):
            # a run: the starred sequence supplies `cnt` values
            items.append(Item(code, cnt if cnt is not None else F.const(1), args[k].v, run=True, node=node))
            k += 1
            continue
        if n is None:
            return Unknown("struct.pack: symbolic count without a starred argument")
        for _ in range(n):
            if k >= len(args) or isinstance(args[k], Star):
                return Unknown("struct.pack: argument count")
            items.append(Item(code, F.const(1), args[k], node=node))
            k += 1
    if k != len(args):
        return Unknown("struct.pack: argument count")
    return order, items


class PackV:
    """bytes produced by struct.pack / Struct.pack"""

    def __init__(self, order, items, fmt):
        self.order, self.items, self.fmt = order, items, fmt

    def __repr__(self):
        return "Pack" + repr(self.items)


class StructV:
    def __init__(self, fmt):
        self.fmt = fmt

    def __repr__(self):
        return f"Struct({self.fmt!r})"


class BoundV:
    """S.pack / S.unpack of a StructV"""

    def __init__(self, st, which):
        self.st, self.which = st, which

    def __repr__(self):
        return f"{self.st!r}.{self.which}"


class DtypeV:
    def __init__(self, fmt):
        self.fmt = fmt

    def code(self):
        # literal characters and constant fields (f"{endian}f{8}"); a symbolic field (the byte order) is skipped
        c = "".join(t[1] if t[0] == "c" else (t[1].render() or "") for t in self.fmt.tokens())
        c = c.lstrip("<>=|")
        return {"f8": "d", "f4": "f", "i4": "i", "i8": "q", "u4": "I", "u8": "Q"}.get(c)

    def __repr__(self):
        return f"dtype({self.fmt!r})"


class BytesV:
    def __init__(self, items, n):
        self.items, self.n = items, n

    def __repr__(self):
        return f"Bytes({self.n!r}: {self.items!r})"


class Stream:
    """what a binary reader consumes: the items a writer emitted, in order"""

    def __init__(self, items):
        self.items = list(items)
        self.i = 0
        self.log = []
        self.lost = False          # the reader moved to a position the evaluator does not follow: nothing read afterwards is decided
        # the quantities a byte count may be made of when it is compared with what the writer packed: whatever the writer's items mention
        self.known = set()
        for it in self.items:
            for v in (it.count, it.value):
                if is_rat(v):
                    self.known |= set(v.n.atoms()) | set(v.d.atoms())

    def _resolved(self, n):
        """is the byte count made of quantities of the written records only (constants, lengths and header values the writer packed)?  A count
        that mentions anything else (an attribute nothing assigned, an opaque call) is not decided against the records: Unknown, never Bad"""
        return (set(n.n.atoms()) | set(n.d.atoms())) <= self.known

    def left(self):
        return self.items[self.i:]

    def read(self, n):
        """n: Rat number of bytes -> BytesV or Bad / Unknown"""
        if not is_rat(n):
            return Unknown("read of an unknown number of bytes")
        if self.lost:
            return Unknown("read after a seek the evaluator does not follow")
        if not n.is_const() and not self._resolved(n):
            return Unknown(f"read({n!r}): the byte count is not a function of the written records")
        got = []
        need_ = n
        while True:
            if need_.is_zero():
                break
            if self.i >= len(self.items):
                if got:
                    return Bad(f"read({n!r}) runs past the end of what the writer emitted")
                return BytesV([], F.const(0))
            it = self.items[self.i]
            nb = it.nbytes()
            rest = need_ - nb
            if rest.is_zero():
                got.append(it)
                self.i += 1
                break
            if rest.is_const():
                if rest.const_value() > 0:
                    got.append(it)
                    self.i += 1
                    need_ = rest
                    continue
                return Bad(f"read({n!r}) ends inside the item {it!r} ({nb!r} bytes)")
            # symbolic difference
            if it.run:
                return Bad(f"read({n!r}) bytes where the writer packed {nb!r} bytes: {it!r}")
            if need_.is_const():
                return Bad(f"read({n!r}) against {it!r}")
            got.append(it)
            self.i += 1
            need_ = rest
        return BytesV(got, n)


def unpack_items(codes, by):
    """values obtained by unpacking BytesV `by` with the struct codes -> tuple of values, or Bad"""
    items = list(by.items)
    out = []
    k = 0
    for code, cnt in codes:
        if code == "x":
            k += 1
            continue
        if k >= len(items):
            return Bad(f"unpack {codes!r}: the bytes read hold only {items!r}")
        it = items[k]
        if code == "s":
            if it.code != "s" or not req(it.count, cnt if cnt is not None else F.const(1)):
                return Bad(f"unpack of a {cnt!r}s field from {it!r}")
            out.append(it.value)
            k += 1
            continue
        n = const_int(cnt) if cnt is not None else 1
        if it.run:
            if CODE_SIZE[it.code] != CODE_SIZE[code] or (it.code in INT_CODES) != (code in INT_CODES):
                return Bad(f"unpack code {code} from {it!r}")
            if cnt is None or not req(cnt, it.count):
                return Bad(f"unpack of {cnt!r} values from a run of {it.count!r}")
            out.append(F.fn("seq", it.value if is_rat(it.value) else F.sym("?")))
            k += 1
            continue
        if n is None:
            return Bad(f"unpack of {cnt!r} x {code} from single items {items[k:]!r}")
        for _ in range(n):
            if k >= len(items):
                return Bad(f"unpack {codes!r}: the bytes read hold only {items!r}")
            it = items[k]
            if it.run or CODE_SIZE[it.code] != CODE_SIZE[code] or (it.code in INT_CODES) != (code in INT_CODES):
                return Bad(f"unpack code {code} from {it!r}")
            out.append(it.value)
            k += 1
    if k != len(items):
        return Bad(f"unpack {codes!r} leaves {items[k:]!r} of the bytes read")
    return tuple(out)
