"""C01-R14: the choice among the under / critically / over-damped formulas is scale-free.

With the rigid-body set given explicitly, the formulas that integrate an elastic mode may depend on the mode only through its damping ratio
(w2 / wo2): the under- and over-damped closed forms are exact for every w > 0 (R1), the critically damped ones are their w -> 0 limit, so a switch
that looks at an *absolute* quantity of the mode (w2, wo2, b, ... against a constant) hands slow modes of an ordinary damping ratio to the limit
formulas - an error of order (w h)^2 that no step size bounds.  Decided on values, never by name:

get_su_coef is evaluated for the generic mode of each elastic regime (c01_coef.run_su_coef, explicit rigid-body set).  Comparisons the regime
decides (a positive multiple of w2/wo2 resp. wo2 against a threshold) are answered as in R1.  A comparison `X op T` the regime does not decide,
with T free of the mode and of the step and X homogeneous of degree d != 0 under the pure change of time unit (w, beta, h) -> (s w, s beta, h / s)
- every dimensionless product (w h, beta h, the damping ratio) is invariant, so the exact solution is the same problem in another unit - is
answered twice: at the slow end s -> 0+ (X -> 0: the sign of T decides) and at the fast end s -> inf (the definite sign of X decides).  w h is
invariant and free, so both ends contain well-conditioned modes of the quantifier domain.  A switch on a dimensionless quantity such as (w h)^2
has degree 0 and is not this rule's business (R1 decides it or reports it undecided).  The eight returned coefficients - formulas in w, beta, h, m - must be the
same at both ends; a difference is reported at the comparison with both formula sets as witness.  A comparison whose answer cannot be had at an
end (indefinite sign, T = 0, not homogeneous) stays undecided exactly as in R1; if it then matters the evaluator reports it (exit 2)."""
from __future__ import annotations

import ast

from . import e2_formula as F
from .core import Unsupported
from .c01_coef import (run_su_coef, regime_oracle, definite_sign, strip_abs, RegimeRaises, COEFS, UTIL)
from .c01_ev import Uninit

ELASTIC = ("under", "crit", "over")


def hom_degree(x, syms=("w", "beta")):
    """d with x(s w, s beta, h / s) = s^d x(w, beta, h) identically (s > 0) - the degree under a pure change of the time unit - else None"""
    if not isinstance(x, F.Rat):
        return None
    s = F.sym("s_")
    try:
        y = x.subs(dict({k: s * F.sym(k) for k in syms}, h=F.sym("h") / s))
    except Exception:  # noqa
        return None
    for d in (0, 1, 2, 3, 4, -1, -2, -3, -4):
        try:
            if y.equals(x * (s ** d)):
                return d
        except Exception:  # noqa
            return None
    return None


def end_oracle(end, log):
    """regime oracle first; then the two ends of the constant-damping-ratio family for homogeneous comparisons"""
    def make(regime, par):
        base = regime_oracle(regime, par)

        def mode_dep(x):
            return x.depends_on("beta") or x.depends_on("w")

        def cmp(node, op, L, R, ev):
            r = base(node, op, L, R, ev)
            if r is not None:
                return r
            o = {ast.Lt: "<", ast.LtE: "<=", ast.Gt: ">", ast.GtE: ">="}[type(op)]
            if not isinstance(L, F.Rat) or not isinstance(R, F.Rat):
                return None
            if mode_dep(R) and not mode_dep(L):
                L, R = R, L
                o = {"<": ">", "<=": ">=", ">": "<", ">=": "<="}[o]
            if mode_dep(R) or not mode_dep(L) or R.depends_on("h"):
                return None
            X, has_abs = strip_abs(L)
            d = hom_degree(X)
            if d is None or d == 0:
                return None
            if (end == "slow") == (d > 0):
                # X -> 0:  0 op T
                st = definite_sign(R)
                if st is None:
                    return None
                res = (st > 0) if o in ("<", "<=") else (st < 0)
            else:
                # |X| -> inf with the sign of X
                sx = 1 if has_abs else definite_sign(X)
                if sx is None:
                    return None
                res = (sx < 0) if o in ("<", "<=") else (sx > 0)
            log.append((node, f"{ast.unparse(node)[:80]}  [mode side {L!r}, degree {d}]"))
            return res
        return cmp
    return make


def _outcome(ctx, fn, regime, m_none, end):
    log = []
    try:
        c, par, ev = run_su_coef(ctx, fn, regime, m_none, cmp=end_oracle(end, log))
    except RegimeRaises as e:
        return ("raise", getattr(e.node, "lineno", None)), log
    return ("coefs", c), log


def r14_scale_free_regimes(ctx):
    fn = ctx.src.func(UTIL, "get_su_coef")
    for regime in ELASTIC:
        for m_none in (False, True):
            tag = regime + ("/m=None" if m_none else "")
            try:
                (k0, v0), log0 = _outcome(ctx, fn, regime, m_none, "slow")
                (k1, v1), log1 = _outcome(ctx, fn, regime, m_none, "fast")
            except Unsupported as e:
                ctx.error(f"{tag}: extraction at both ends of the constant-damping-ratio family", fn, str(e))
                continue
            seen, sites = set(), []
            for node, txt in log0 + log1:
                if id(node) not in seen:
                    seen.add(id(node))
                    sites.append((node, txt))
            where = sites[0][0] if sites else fn
            diff = None
            if k0 != k1:
                diff = {"slow end": k0 if k0 == "raise" else "coefficients", "fast end": k1 if k1 == "raise" else "coefficients"}
            elif k0 == "coefs":
                for x in COEFS:
                    a, b = v0[x], v1[x]
                    if isinstance(a, Uninit) or isinstance(b, Uninit):
                        same = isinstance(a, Uninit) and isinstance(b, Uninit)
                    elif not isinstance(a, F.Rat) or not isinstance(b, F.Rat):
                        ctx.error(f"{tag}: coefficient {x} was not computed at an end of the family (as in R1)", where, f"{a!r} / {b!r}"[:300])
                        diff = "undecided"
                        break
                    else:
                        try:
                            same = a.equals(b)
                        except Exception as e:  # noqa
                            ctx.error(f"{tag}: comparison of {x} at the two ends", where, str(e))
                            same = True
                    if not same:
                        diff = {"coefficient": x, "slow end (s -> 0+)": repr(a)[:300], "fast end (s -> inf)": repr(b)[:300]}
                        break
            if diff == "undecided":
                continue
            ctx.check(diff is None, f"{tag}: the formulas of an elastic mode do not depend on its absolute time scale "
                                    f"({len(sites)} scale-dependent comparison(s) met)", where,
                      None if diff is None else dict(diff, comparisons=[t for _, t in sites],
                                                      reason="modes of one damping ratio, differing only in time scale, are integrated with different formulas"),
                      key=f"C01-R14|get_su_coef|{tag}")
