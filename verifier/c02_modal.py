"""C02 helper (pass 5): the `pre_eig` regime and hand-written quadrature weights.

pre_eig: the solver works in modal coordinates q with x = Phi q (`_solution_freq` hands back Phi @ d), its matrices are Phi^T M Phi = 1 (m None),
Phi^T B Phi, Phi^T K Phi.  Pre-multiplying (-W^2 M + i W B + K) Phi q = F by Phi^T, every equation the solver solves - dynamic, residual
flexibility, rigid body - has the right-hand side Phi^T F.  `modal_force` builds that value from the transform read in `_solution_freq`;
`push_T` is the normal form in which it is compared: in the algebra of the formula rules (matrix products are commuting scalars) the transpose is
a ring homomorphism and an involution, so it is pushed down to the symbols (`(F.T @ Phi).T` and `Phi.T @ F` are one value).

trapezoid: `trapezoid_weights(n)` are the weights of the composite trapezoid rule on a generic grid of n points, written over the symbols
f0 .. f(n-1)."""
from __future__ import annotations

from . import e2_formula as F
from .core import Unsupported
from .e2_eval import need

# symbols a transpose leaves alone: scalars, and the frequency vector (one-dimensional by the interface: `.T` of a 1-D array is the array)
T_INVARIANT = {"pi", "I", "freq", "None", "True", "False", ":"}


def _rat(k):
    return F.Rat(F._poly_from_key(k[1])) / F.Rat(F._poly_from_key(k[2]))


def _wpoly(p, t):
    res = F.const(0)
    for m, c in p.t.items():
        term = F.const(c)
        for a, e in m:
            term = term * (_watom(a, t) ** e)
        res = res + term
    return res


def _walk(v, t):
    return _wpoly(v.n, t) / _wpoly(v.d, t)


def _watom(a, t):
    d = F.atom_desc(a)
    if d[0] == "s":
        base = F.Rat(F.Poly.atom(a))
        return F.fn("attr:T", base) if t and d[1] not in T_INVARIANT and d[1][:1] not in "'\"<" else base
    if d[0] in ("exp", "sin", "cos", "sqrt"):
        arg = _walk(F.Rat(F._poly_from_key(d[1])), t)                      # element-wise functions commute with the transpose
        return {"exp": F.exp, "sin": F.sin, "cos": F.cos, "sqrt": F.sqrt}[d[0]](arg)
    if d[0] == "fn":
        if d[1] == "attr:T" and len(d[2]) == 1 and not isinstance(d[2][0], str):
            return _walk(_rat(d[2][0]), not t)
        args = [k if isinstance(k, str) else _walk(_rat(k), False) for k in d[2]]
        r = F.fn(d[1], *args)
        return F.fn("attr:T", r) if t else r
    raise Unsupported(f"transpose of atom {d}")


def push_T(v):
    """the value with every transpose pushed down to the symbols / opaque applications it is applied to (T(T(x)) = x, T(x y) = T(x) T(y))"""
    return _walk(need(v), False)


def transpose(v):
    return _walk(need(v), True)


def trapezoid_weights(n, name="f"):
    """weights of the composite trapezoid rule on the grid f0 < f1 < ... < f(n-1): w_0 = d_0/2, w_i = (d_(i-1) + d_i)/2, w_last = d_last/2"""
    f = [F.sym(f"{name}{i}") for i in range(n)]
    d = [f[i + 1] - f[i] for i in range(n - 1)]
    half = F.const(1) / F.const(2)
    return [d[0] * half] + [(d[i - 1] + d[i]) * half for i in range(1, n - 1)] + [d[-1] * half]


# ------------------------------------------------------------------------------------------------ vector constructors (Opts.vectors)
def _scalars(v):
    from .e2_eval import is_unknown
    from .c02_sem import DictValue
    return isinstance(v, tuple) and all(x is not None and not is_unknown(x) and not isinstance(x, (tuple, DictValue)) for x in v)


def _one(v):
    from .e2_eval import is_unknown
    from .c02_sem import DictValue
    return v is not None and not is_unknown(v) and not isinstance(v, (tuple, DictValue))


def _length(ev, node):
    """value of a length argument as a non-negative int, or None"""
    v = ev.ev(node)
    if isinstance(v, tuple) and len(v) == 1:
        v = v[0]                  # a shape written as a 1-tuple
    if _one(v) and v.is_const() and v.const_value().denominator == 1 and 0 <= v.const_value() <= 64:
        return int(v.const_value())
    return None


def _plain(node, nargs, kw=()):
    import ast
    return len(node.args) in nargs and not any(isinstance(a, ast.Starred) for a in node.args) and all(k.arg in kw for k in node.keywords)


def _m_len(ev, node):
    if _plain(node, (1,)):
        v = ev.ev(node.args[0])
        if _scalars(v):
            return F.const(len(v))
    return NotImplemented


def _m_append(ev, node):
    if not _plain(node, (2,)):
        return NotImplemented
    parts = [ev.ev(a) for a in node.args]
    out = []
    for p in parts:
        if _scalars(p):
            out.extend(p)
        elif _one(p) and p.is_const():
            out.append(p)             # a number appended to a vector
        else:
            return NotImplemented
    return tuple(out) if any(isinstance(p, tuple) for p in parts) else NotImplemented


def _m_filled(fill):
    def m(ev, node):
        if not _plain(node, (1,) if fill is not None else (2,), ("dtype",)):
            return NotImplemented
        n = _length(ev, node.args[0])
        if n is None:
            return NotImplemented
        if fill is None:
            c = ev.ev(node.args[1])
            if not (_one(c) and c.is_const()):
                return NotImplemented
            return (c,) * n
        return tuple(F.sym("<uninitialised memory>") if fill == "empty" else F.const(fill) for _ in range(n))
    return m


def _m_like(fill):
    def m(ev, node):
        if not _plain(node, (1,), ("dtype",)):
            return NotImplemented
        v = ev.ev(node.args[0])
        if not _scalars(v):
            return NotImplemented
        return tuple(F.sym("<uninitialised memory>") if fill == "empty" else F.const(fill) for _ in v)
    return m


def _m_gradient(ev, node):
    """np.gradient(y) with unit spacing and the default edge order: central differences inside, one-sided first differences at both ends"""
    if not _plain(node, (1,)):
        return NotImplemented
    v = ev.ev(node.args[0])
    if not _scalars(v) or len(v) < 2:
        return NotImplemented
    n = len(v)
    half = F.const(1) / F.const(2)
    return tuple([v[1] - v[0]] + [(v[i + 1] - v[i - 1]) * half for i in range(1, n - 1)] + [v[n - 1] - v[n - 2]])


def _m_flip(ev, node):
    if not _plain(node, (1,)):
        return NotImplemented
    v = ev.ev(node.args[0])
    return tuple(reversed(v)) if _scalars(v) else NotImplemented


def vector_models():
    out = {"len": _m_len, "np.size": _m_len, "np.append": _m_append, "np.gradient": _m_gradient, "np.flip": _m_flip,
           "np.zeros": _m_filled(0), "np.ones": _m_filled(1), "np.empty": _m_filled("empty"), "np.full": _m_filled(None),
           "np.zeros_like": _m_like(0), "np.ones_like": _m_like(1), "np.empty_like": _m_like("empty")}
    out.update({"numpy." + k[3:]: v for k, v in list(out.items()) if k.startswith("np.")})
    return out
